"""pybind11 emitter rules: C03 (A1-A7), C04 (B1-B7), C09 (W1-W3) - Engine E on gtwrap/pybind_wrapper.py."""
from __future__ import annotations

import ast
import re
import keyword
import string
from typing import Dict, List, Optional, Set, Tuple

from .core import AnalysisError, Report
from .emit import Folder, Slot, Tpl, balance_errors
from .prog import (ClassInfo, Program, bind_call, bound_args, dotted, enclosing, func_params, guards_of,
                   inline_locals, local_assignments, parent, single_def, stmt_of, unparse, value_def, walk_no_nested)

PW = "gtwrap/pybind_wrapper.py"


def pw(ctx) -> Tuple[ClassInfo, Program]:
    prog = ctx.prog
    return prog.cls("PybindWrapper"), prog


def folder_for(ctx, fn) -> Folder:
    ci, prog = pw(ctx)
    return Folder(prog, ci.mod, fn, ci)


def find_tpl(ctx, fn, need: Set[str]) -> Optional[Tpl]:
    """The folded template in fn (value of any assignment / augmented assignment / return) whose slot
    keys include `need`; the one with most slots wins.  Selection is by format keys, never by the
    names of local variables."""
    fo = folder_for(ctx, fn)
    best = None
    for st in ast.walk(fn):
        v = None
        if isinstance(st, (ast.Assign, ast.AugAssign, ast.Return)):
            v = st.value
        if v is None:
            continue
        try:
            t = fo.fold(v)
        except AnalysisError:
            continue
        if t is None or not t.slots():
            continue
        keys = {x.key for x in t.slots()}
        if need <= keys and (best is None or len(t.slots()) > len(best.slots())):
            best = t
            best._stmt = st      # type: ignore[attr-defined]
    return best


def emitter(ctx, name: str):
    """The method of PybindWrapper that builds the text for one element: `name` itself, or - when `name` builds no text
    of its own and only joins what one per-element helper `self.<h>(element, ...)` returns - that helper."""
    ci, prog = pw(ctx)
    fn = prog.method("PybindWrapper", name)
    if any(True for _ in format_sites(fn)):
        return fn
    hs = []
    for c in ast.walk(fn):
        if isinstance(c, ast.Call) and isinstance(c.func, ast.Attribute) and isinstance(c.func.value, ast.Name) and c.func.value.id == "self":
            h = prog.find_method(ci, c.func.attr)
            if h is not None and any(True for _ in format_sites(h[1])) and h[1] not in hs:
                hs.append(h[1])
    return hs[0] if len(hs) == 1 else fn


def slot_text(s_: Slot) -> str:
    """What a slot prints, as source text: the bound expression plus the attribute path written in the format field
    (`{enumerator.name}` bound to `enumerator` and an f-string's `{enumerator.name}` both read `enumerator.name`)."""
    base = unparse(s_.val) if s_.val is not None else "?"
    if s_.field != s_.key and s_.field.startswith(s_.key) and s_.expr is not None and unparse(s_.expr) != s_.field:
        return base + s_.field[len(s_.key):]
    return base


def values_of(fn, e: ast.AST) -> List[ast.AST]:
    """All values a local name is assigned in fn (the expression itself when it is not a local)."""
    if isinstance(e, ast.Name) and e.id not in func_params(fn):
        vals = [st.value for st in local_assignments(fn).get(e.id, []) if isinstance(st, ast.Assign)]
        if vals:
            return sorted(vals, key=lambda v: v.lineno)
    return [e]


def one_value(fn, e: ast.AST) -> ast.AST:
    vs = values_of(fn, e)
    return vs[0] if len(vs) == 1 else e


# ------------------------------------------------------------------------------------------
# C09
def format_sites(fn):
    """Outermost text-producing expressions of a function: .format calls and f-strings that are
    not themselves the receiver / argument-free part of a bigger folded template."""
    for n in ast.walk(fn):
        if isinstance(n, ast.Call) and isinstance(n.func, ast.Attribute) and n.func.attr == "format":
            yield n
        elif isinstance(n, ast.JoinedStr):
            yield n


def rule_slot_completeness(ctx, rep: Report, rid="W1", cls="PybindWrapper", min_sites=15, unused_ok=False):
    ci = ctx.prog.cls(cls)
    prog = ctx.prog
    n = 0
    for mname, fn in sorted(ci.methods.items()):
        fo = Folder(prog, ci.mod, fn, ci)
        for site in format_sites(fn):
            if isinstance(site, ast.JoinedStr):
                continue
            try:
                t = fo.fold(site)
            except AnalysisError as e:
                rep.add(rid, f"format:{cls}.{mname}:{unparse(site.func.value)[:40]}", False, str(e), f"{ci.mod.rel}:{site.lineno}")
                continue
            if t is None:
                continue        # template is not constant-foldable here (e.g. the user-supplied module template)
            n += 1
            key = f"format:{cls}.{mname}:{_tpl_key(t)}"
            rep.add(rid, key, not t.missing,
                    f"placeholder(s) {t.missing} have no value at this call: a KeyError/IndexError on the path "
                    f"that reaches it", f"{ci.mod.rel}:{site.lineno}")
            unused = [u for u in t.unused]
            if unused_ok:
                continue        # this emitter passes context values to every template as a habit; only a missing one breaks
            rep.add(rid, key + ":no dropped fragment", not unused,
                    f"value(s) passed for {unused} are not used by the template: that fragment is silently "
                    f"dropped from the generated code", f"{ci.mod.rel}:{site.lineno}", nontrivial=bool(unused))
    rep.units[f"{cls}_format_sites"] = n
    if n < min_sites:
        raise AnalysisError(f"{rep.prop}/{rid}: {n} foldable format sites in {cls}, >= {min_sites} expected")


def _tpl_key(t: Tpl) -> str:
    lit = " ".join(t.literal("@").split())
    return lit[:50]


MODULE_TEMPLATES = ["templates/pybind_wrapper.tpl.example", "tests/pybind_wrapper.tpl"]


def rule_module_template_keys(ctx, rep: Report, rid="W1"):
    ci, prog = pw(ctx)
    fn = prog.method("PybindWrapper", "wrap_file")
    call = None
    for c in ast.walk(fn):
        if isinstance(c, ast.Call) and isinstance(c.func, ast.Attribute) and c.func.attr == "format" \
                and unparse(c.func.value) == "self.module_template":
            call = c
    if call is None:
        raise AnalysisError("wrap_file: self.module_template.format(...) not found")
    keys = {k.arg for k in call.keywords if k.arg}
    for rel in MODULE_TEMPLATES:
        if not ctx.tree.has(rel):
            continue
        text = ctx.tree.src(rel).text
        try:
            fields = {f.split(".")[0].split("[")[0] for _, f, _, _ in string.Formatter().parse(text) if f is not None}
        except ValueError as e:
            rep.add(rid, f"module-template:{rel}:parses as a format string", False, str(e), f"{rel}:1")
            continue
        rep.add(rid, f"module-template:{rel}:placeholders are all supplied by wrap_file", fields <= keys,
                f"template uses {sorted(fields - keys)} which wrap_file does not pass", f"{rel}:1")
        errs = balance_errors(_strip_cpp_comments(text.replace("{{", "\x01").replace("}}", "\x02")).replace("\x01", "{").replace("\x02", "}")
                              .replace("{includes}", "").replace("{", "{").replace("}", "}"), quotes='"')
        # placeholders {name} are balanced pairs themselves; balance is judged on the rest
        rep.add("W2", f"module-template:{rel}:delimiters balanced", not errs, "; ".join(errs), f"{rel}:1")
    must = {"module_def", "module_name", "includes", "wrapped_namespace", "boost_class_export", "submodules", "submodules_init"}
    rep.add(rid, "module-template:wrap_file passes the documented keys", must <= keys,
            f"missing {sorted(must - keys)}", f"{ci.mod.rel}:{call.lineno}")


def _strip_cpp_comments(text: str) -> str:
    out, i, n = [], 0, len(text)
    while i < n:
        if text.startswith("//", i):
            j = text.find("\n", i)
            i = n if j < 0 else j
        elif text.startswith("/*", i):
            j = text.find("*/", i + 2)
            i = n if j < 0 else j + 2
        else:
            out.append(text[i])
            i += 1
    return "".join(out)


def rule_balance(ctx, rep: Report, rid="W2", cls="PybindWrapper", min_sites=15, angle=False, quotes='"'):
    ci = ctx.prog.cls(cls)
    prog = ctx.prog
    n = 0
    for mname, fn in sorted(ci.methods.items()):
        fo = Folder(prog, ci.mod, fn, ci)
        seen = set()
        for site in format_sites(fn):
            # judge the outermost folded template only once
            p = parent(site)
            if isinstance(p, ast.Attribute) and p.attr == "format":
                continue
            try:
                t = fo.fold(site)
            except AnalysisError:
                continue
            if t is None:
                continue
            lit = t.literal("0")
            if lit in seen:
                continue
            seen.add(lit)
            n += 1
            errs = balance_errors(_strip_cpp_comments(lit), angle=angle, quotes=quotes)
            rep.add(rid, f"balance:{cls}.{mname}:{_tpl_key(t)}", not errs,
                    "the literal part of this template has unbalanced delimiters (" + "; ".join(errs) +
                    "): with balanced slot values the emitted code is unbalanced", f"{ci.mod.rel}:{site.lineno}")
    if n < min_sites:
        raise AnalysisError(f"{rep.prop}/{rid}: {n} templates judged in {cls}, >= {min_sites} expected")


def rule_kind_adjacency(ctx, rep: Report, rid="W3"):
    """No namespace prefix directly in front of verbatim expression text."""
    ci, prog = pw(ctx)
    fn = prog.method("PybindWrapper", "wrap_variable")
    fo = folder_for(ctx, fn)
    rets = [r for r in walk_no_nested(fn) if isinstance(r, ast.Return) and r.value is not None]
    if len(rets) != 1:
        raise AnalysisError("wrap_variable: expected one return")
    t = fo.fold(rets[0].value)
    if t is None:
        raise AnalysisError("wrap_variable: template not foldable")
    parts = t.parts
    found = False
    for i, p in enumerate(parts):
        if isinstance(p, Slot) and i > 0 and isinstance(parts[i - 1], Slot):
            a, b = parts[i - 1], p
            if _is_ns_prefix(fn, a):
                found = True
                kinds = _value_kinds(fn, b.expr)
                bad = [k for k, guard_ok in kinds if k == "EXPR_TEXT" and not guard_ok]
                rep.add(rid, f"adjacency:wrap_variable:{{{a.key}}}{{{b.key}}}", not bad,
                        f"the namespace prefix {{{a.key}}} is emitted directly in front of {{{b.key}}}, which can be "
                        f"the variable's initialiser text (`variable.default`): `namespace ns {{ const int x = 5; }}` "
                        f"yields `ns::5`", f"{ci.mod.rel}:{rets[0].lineno}")
    if not found:
        raise AnalysisError("wrap_variable: namespace-prefix slot not found")


def _is_ns_prefix(fn, s: Slot) -> bool:
    return isinstance(s.expr, ast.Name) and s.expr.id in func_params(fn) and "namespace" in s.expr.id


def _value_kinds(fn, e: ast.AST) -> List[Tuple[str, bool]]:
    """Kinds a slot value can take: ('EXPR_TEXT', guard_ok) for `.default` text, 'IDENT' for names.
    guard_ok: on the path that assigns expression text, the namespace prefix is cleared."""
    out = []
    if isinstance(e, ast.Name):
        for st in local_assignments(fn).get(e.id, []):
            if isinstance(st, ast.Assign):
                v = unparse(st.value)
                if any(isinstance(x, ast.Attribute) and x.attr == "default" for x in ast.walk(st.value)):
                    # is the prefix parameter reset, unconditionally, in the same block?
                    blk = parent(st)
                    body = getattr(blk, "body", []) if st in getattr(blk, "body", []) else getattr(blk, "orelse", [])
                    cleared = any(isinstance(s2, ast.Assign) and isinstance(s2.targets[0], ast.Name)
                                  and "namespace" in s2.targets[0].id and isinstance(s2.value, ast.Constant)
                                  and s2.value.value == "" for s2 in body)
                    out.append(("EXPR_TEXT", cleared))
                elif v.endswith(".name"):
                    out.append(("IDENT", True))
                elif isinstance(st.value, ast.Constant):
                    out.append(("CONST", True))
                else:
                    out.append(("OTHER", True))
    elif unparse(e).endswith(".default"):
        out.append(("EXPR_TEXT", False))
    return out


# ------------------------------------------------------------------------------------------
# C04
EMITTERS = ["_wrap_method", "_wrap_dunder", "wrap_functions", "wrap_ctors"]
PROJECTIONS = {"names", "to_cpp", "list"}
HELPERS = {"_py_args_names", "_method_args_signature"}


def _arg_list_uses(fn) -> List[Tuple[str, ast.AST]]:
    """(base text, node) for every projection of an argument list in fn:  X.args.names(),
    self._py_args_names(X.args) ..."""
    out = []
    for c in walk_no_nested(fn):
        if not isinstance(c, ast.Call):
            continue
        if isinstance(c.func, ast.Attribute) and c.func.attr in PROJECTIONS and unparse(c.func.value).endswith(".args"):
            out.append((unparse(c.func.value), c))
        elif isinstance(c.func, ast.Attribute) and c.func.attr in HELPERS and c.args:
            out.append((unparse(c.args[0]), c))
    return out


def _tampered(fn, node: ast.AST) -> Optional[str]:
    """Is the projected list sliced / filtered / reordered before it is used?"""
    p = parent(node)
    if isinstance(p, ast.Subscript) and p.value is node:
        return f"subscripted: {unparse(p)[:40]}"
    if isinstance(p, ast.Call) and isinstance(p.func, ast.Name) and p.func.id in ("reversed", "sorted", "set", "filter"):
        return f"{p.func.id}() applied"
    if isinstance(p, ast.Assign) and len(p.targets) == 1 and isinstance(p.targets[0], ast.Name):
        var = p.targets[0].id
        for u in walk_no_nested(fn):
            if isinstance(u, ast.Name) and u.id == var and isinstance(u.ctx, ast.Load):
                q = parent(u)
                if isinstance(q, ast.Subscript) and q.value is u and isinstance(q.slice, ast.Slice):
                    return f"{var} sliced: {unparse(q)[:40]}"
                if isinstance(q, ast.Call) and isinstance(q.func, ast.Name) and q.func.id in ("reversed", "sorted", "set", "filter"):
                    return f"{q.func.id}({var})"
                if isinstance(q, ast.Attribute) and q.attr in ("pop", "remove", "sort", "reverse", "insert", "append"):
                    return f"{var}.{q.attr}()"
        if len(local_assignments(fn).get(var, [])) != 1:
            return f"{var} re-assigned"
    return None


def rule_one_argument_list(ctx, rep: Report, rid="B1", min_emitters=4):
    ci, prog = pw(ctx)
    n = 0
    for name in EMITTERS:
        fn = emitter(ctx, name)
        uses = _arg_list_uses(fn)
        if not uses:
            raise AnalysisError(f"{name}: no argument-list projection found")
        n += 1
        bases = sorted({b for b, _ in uses})
        rep.add(rid, f"emitter:{name}:types, names, call arguments and py::arg list come from one argument list",
                len(bases) == 1, f"projections are taken from {bases}", f"{ci.mod.rel}:{fn.lineno}")
        for b, node in uses:
            t = _tampered(fn, node)
            rep.add(rid, f"emitter:{name}:{unparse(node)[:50]}:whole list in declared order", t is None,
                    f"the argument list is altered before it is emitted ({t}): lambda parameters, call arguments "
                    f"and keyword names no longer line up", f"{ci.mod.rel}:{node.lineno}")
    # the helpers iterate the whole list, in order
    for hname in sorted(HELPERS):
        fn = prog.method("PybindWrapper", hname)
        p = func_params(fn)[1]
        probs = []
        for c in walk_no_nested(fn):
            if isinstance(c, (ast.For, ast.comprehension)):
                it = unparse(c.iter)
                if isinstance(c, ast.comprehension) and c.ifs:
                    probs.append(f"filtered comprehension over {it}")
                if it.startswith("zip("):
                    ops = [unparse(a) for a in c.iter.args]
                    srcs = []
                    for a in c.iter.args:
                        v = inline_locals(fn, a)
                        if isinstance(v, (ast.ListComp, ast.GeneratorExp)) and len(v.generators) == 1 and not v.generators[0].ifs:
                            v = v.generators[0].iter          # an element-wise mapping of the list keeps length and order
                        srcs.append(unparse(v))
                    if not all(s.startswith(p + ".") and s.endswith("()") for s in srcs):
                        probs.append(f"zip over {srcs}")
                elif not (it == f"{p}.list()" or it.startswith(p + ".")):
                    probs.append(f"iterates {it}")
            if isinstance(c, (ast.Continue, ast.Break)):
                probs.append(type(c).__name__.lower())
            if isinstance(c, ast.Subscript) and isinstance(c.slice, ast.Slice):
                probs.append(f"slice {unparse(c)[:30]}")
        rep.add(rid, f"helper:{hname}:one output element per argument, in order", not probs,
                "; ".join(probs), f"{ci.mod.rel}:{fn.lineno}")
    for cls, meth in (("ArgumentList", "names"), ("ArgumentList", "to_cpp"), ("ArgumentList", "list")):
        fn = prog.method(cls, meth)
        c2 = prog.cls(cls)
        txt = unparse(fn.body[-1])
        ok = "self.args_list" in txt and " if " not in txt and "[::" not in txt and "sorted" not in txt and "reversed" not in txt
        rep.add(rid, f"helper:{cls}.{meth}:projection of the whole list", ok, txt[:80], f"{c2.mod.rel}:{fn.lineno}")
    if n < min_emitters:
        raise AnalysisError(f"{rep.prop}/{rid}: {n} emitters")
    # slots: the lambda's parameter list, the call's argument list and the py::arg list are each bound once
    for name, slots in (("_wrap_method", ("args_signature_with_names", "function_call", "py_args_names")),
                        ("_wrap_dunder", ("args_signature_with_names", "function_call", "py_args_names")),
                        ("wrap_functions", ("args_signature", "function_call", "py_args_names"))):
        fn = emitter(ctx, name)
        best = find_tpl(ctx, fn, set(slots))
        if best is None:
            raise AnalysisError(f"{name}: binding template not found")
        lit = best.literal("@")
        have = [s.key for s in best.slots()]
        ok = all(k in have for k in slots) and lit.count("[](") == 1 and lit.count("){") == 1
        order = [have.index(k) for k in slots if k in have]
        rep.add(rid, f"emitter:{name}:lambda shape [](params){{call}} , py::args", ok and order == sorted(order),
                f"template skeleton {lit[:90]!r}, slots {have}", f"{ci.mod.rel}:{fn.lineno}")


def rule_default_on_own_parameter(ctx, rep: Report, rid="B2"):
    """One keyword-argument entry is `py::arg("<name>")<default part>` where name and default come from the same
    argument object, and the default part is non-empty exactly when that argument has a default.  The entry may be
    built in the loop over the arguments or in a helper applied to each argument."""
    ci, prog = pw(ctx)
    fn = prog.method("PybindWrapper", "_py_args_names")
    fo = Folder(prog, ci.mod, None, ci)
    hit = None
    for site in ast.walk(fn):
        if not (isinstance(site, ast.JoinedStr) or (isinstance(site, ast.Call) and isinstance(site.func, ast.Attribute) and site.func.attr == "format")):
            continue
        t = fo.fold(site)
        if t is None or t.literal("@").replace(" ", "") != 'py::arg("@")@':
            continue
        hit = (site, t)
    if hit is None:
        raise AnalysisError("_py_args_names: entry template py::arg(\"..\")... not found")
    site, t = hit
    scope = enclosing(site, ast.FunctionDef) or fn
    s_name, s_def = t.slots()
    m = re.fullmatch(r"([A-Za-z_]\w*)\.name", unparse(s_name.expr)) if s_name.expr is not None else None
    var = m.group(1) if m else None

    def vals(e, depth=3):
        if isinstance(e, ast.Call) and isinstance(e.func, ast.Attribute) and e.func.attr == "format" and e.args:
            return vals(e.args[0], depth)
        if isinstance(e, ast.JoinedStr) and len(e.values) == 1 and isinstance(e.values[0], ast.FormattedValue):
            return vals(e.values[0].value, depth)         # f'{x}' is x
        if isinstance(e, ast.Name) and depth > 0:
            vs = [st.value for st in walk_no_nested(scope) if isinstance(st, ast.Assign) and len(st.targets) == 1
                  and isinstance(st.targets[0], ast.Name) and st.targets[0].id == e.id]
            if vs:
                return [x for v in vs for x in vals(v, depth - 1)]
        if isinstance(e, ast.IfExp):
            return vals(e.body, depth) + vals(e.orelse, depth)
        return [e]
    dvals = vals(s_def.expr) if s_def.expr is not None else []
    roots = {x.id for v in dvals for x in ast.walk(v) if isinstance(x, ast.Name)}
    n_ok = var is not None
    def reads_default(v) -> bool:
        if f"{var}.default" in unparse(v):
            return True
        tt = fo.fold(v)
        return tt is not None and any(isinstance(sl.expr, ast.Name) and sl.expr.id == var and sl.field.endswith(".default") for sl in tt.slots())
    d_ok = var is not None and roots <= {var} and any(reads_default(v) for v in dvals)
    rep.add(rid, "py::arg:name and default of one entry come from the same argument", n_ok and d_ok,
            f"name <- {unparse(s_name.expr) if s_name.expr is not None else None}, default <- values depending on {sorted(roots)}",
            f"{ci.mod.rel}:{site.lineno}")
    rep.add(rid, "py::arg:entry spelled py::arg(\"name\") = default", True, f"skeleton {t.literal('@')!r}", f"{ci.mod.rel}:{site.lineno}",
            nontrivial=False)
    # the non-empty default part is chosen exactly by `<var>.default is not None`
    tests = []
    for x in ast.walk(scope):
        if isinstance(x, ast.IfExp) and any(f"{var}.default" in unparse(b_) for b_ in (x.body, x.orelse) if not isinstance(b_, ast.Constant)):
            tests.append(unparse(x.test) if not (isinstance(x.orelse, ast.Constant) is False) else unparse(x.test))
        elif isinstance(x, ast.If) and any(isinstance(st, (ast.Assign, ast.AugAssign, ast.Return)) and st.value is not None
                                            and reads_default(st.value)
                                            for st in x.body if isinstance(st, (ast.Assign, ast.AugAssign, ast.Return))):
            tests.append(unparse(x.test))
    rep.add(rid, "py::arg:default emitted exactly when the argument has one", tests == [f"{var}.default is not None"],
            f"guards {tests}", f"{ci.mod.rel}:{site.lineno}")
    # every argument contributes one entry, in order
    iters = [l.iter for l in ast.walk(fn) if isinstance(l, ast.For)] + \
            [g.iter for c in ast.walk(fn) if isinstance(c, (ast.ListComp, ast.GeneratorExp)) for g in c.generators if not g.ifs]
    p_args = func_params(fn)[1]
    rep.add(rid, "py::arg:one entry per argument of the list, in order", any(unparse(i) == f"{p_args}.list()" for i in iters),
            f"iterations over {[unparse(i) for i in iters]}", f"{ci.mod.rel}:{fn.lineno}", nontrivial=False)


def _isinstance_classes(prog: Program, mi, test: ast.AST) -> Optional[Set[str]]:
    if isinstance(test, ast.Call) and unparse(test.func) == "isinstance" and len(test.args) == 2:
        t = test.args[1]
        elts = t.elts if isinstance(t, ast.Tuple) else [t]
        out = set()
        for e in elts:
            rc = prog.resolve_class(e, mi)
            if rc is None:
                return None
            out.add(rc.qual)
        return out
    return None


def _truth(prog, env: Dict[str, bool], e: ast.AST) -> Optional[bool]:
    if isinstance(e, ast.Name) and e.id in env:
        return env[e.id]
    if isinstance(e, ast.UnaryOp) and isinstance(e.op, ast.Not):
        v = _truth(prog, env, e.operand)
        return None if v is None else (not v)
    if isinstance(e, ast.BoolOp):
        vs = [_truth(prog, env, x) for x in e.values]
        if isinstance(e.op, ast.And):
            if any(v is False for v in vs):
                return False
            return None if any(v is None for v in vs) else True
        if any(v is True for v in vs):
            return True
        return None if any(v is None for v in vs) else False
    if isinstance(e, ast.Constant):
        return bool(e.value)
    return None


def rule_receiver_consistency(ctx, rep: Report, rid="B3"):
    ci, prog = pw(ctx)
    fn = prog.method("PybindWrapper", "_wrap_method")
    mparam = func_params(fn)[1]
    tpl = find_tpl(ctx, fn, {"cdef", "opt_self", "function_call"})
    if tpl is None:
        raise AnalysisError("_wrap_method: registration template not found")
    cdef = tpl.slot("cdef").val
    opt_self = tpl.slot("opt_self").val
    if not isinstance(opt_self, ast.IfExp) and tpl.slot("opt_self").sub is None:
        # `opt_self = f"{cpp_class}* self" if is_method else ""` held in a local: the conditional behind the name
        opt_self = value_def(fn, opt_self.id) if isinstance(opt_self, ast.Name) else opt_self
    fc = tpl.slot("function_call").sub
    if fc is None or fc.slot("caller") is None:
        raise AnalysisError("_wrap_method: call template / caller slot not found")
    caller = fc.slot("caller").val if isinstance(fc.slot("caller").val, ast.IfExp) else one_value(fn, fc.slot("caller").expr)
    # predicates: every name used in the three tests that is bound to isinstance(<method>, ...)
    preds: Dict[str, Set[str]] = {}
    for e in (cdef, opt_self, caller):
        for x in ast.walk(e):
            if isinstance(x, ast.Name):
                v = one_value(fn, x)
                cs = _isinstance_classes(prog, ci.mod, v) if isinstance(v, ast.Call) else None
                if cs is not None and isinstance(v.args[0], ast.Name) and v.args[0].id == mparam:
                    preds[x.id] = cs
    if len(preds) < 1:
        raise AnalysisError("_wrap_method: is_method / is_static predicates not found")
    want = {"Method": ("def", "self->", True), "StaticMethod": ("def_static", "::", False)}
    for kind, (w_def, w_recv, w_self) in want.items():
        kc = prog.cls(kind)
        env = {p: any(prog.is_subclass(kc, prog.cls(q)) or kc.qual == q for q in cs) for p, cs in preds.items()}

        def pick(ifexp):
            if isinstance(ifexp, ast.Constant):
                return ifexp
            if not isinstance(ifexp, ast.IfExp):
                return None
            v = _truth(prog, env, ifexp.test)
            if v is None:
                return None
            return ifexp.body if v else ifexp.orelse
        d = pick(cdef)
        c = pick(caller)
        s = pick(opt_self)
        got_def = d.value if isinstance(d, ast.Constant) else None
        got_recv = unparse(c) if c is not None else None
        got_self = None if s is None else not (isinstance(s, ast.Constant) and s.value == "")
        ok = got_def == w_def and got_recv is not None and (w_recv in got_recv) and got_self == w_self
        rep.add(rid, f"{kind}:registered with .{w_def}, called as {'self->' if w_self else 'Class::'}, "
                     f"{'with' if w_self else 'without'} self parameter", ok,
                f"for a {kind}: registration {got_def!r}, receiver {got_recv!r}, self parameter {got_self} "
                f"(predicates {env})", f"{ci.mod.rel}:{fn.lineno}")
    # opt_comma agrees with presence of self and arguments
    oc = tpl.slot("opt_comma")
    ok_oc = False
    if oc is not None and isinstance(oc.val, ast.IfExp) and isinstance(oc.val.test, ast.BoolOp) \
            and isinstance(oc.val.test.op, ast.And) and len(oc.val.test.values) == 2:
        a, b = oc.val.test.values
        self_test = opt_self.test if isinstance(opt_self, ast.IfExp) else None
        ok_oc = self_test is not None and unparse(a) == unparse(self_test) and \
            unparse(one_value(fn, b)).endswith(".args.names()")
    rep.add(rid, "separator between self and the parameters present exactly when both are", ok_oc,
            f"opt_comma <- {unparse(oc.val) if oc else None}", f"{ci.mod.rel}:{fn.lineno}")


def rule_return_polarity(ctx, rep: Report, rid="B4"):
    ci, prog = pw(ctx)
    for name in ("_wrap_method", "wrap_functions"):
        fn = emitter(ctx, name)
        fc = find_tpl(ctx, fn, {"opt_return", "caller"})
        if fc is None:
            raise AnalysisError(f"{name}: function_call template not found")
        e = fc.slot("opt_return").val
        rv = None
        ok = False
        if isinstance(e, ast.IfExp) and isinstance(e.test, ast.UnaryOp) and isinstance(e.test.op, ast.Not):
            rv = unparse(one_value(fn, e.test.operand))
            ok = isinstance(e.body, ast.Constant) and e.body.value == "return" and isinstance(e.orelse, ast.Constant) \
                and e.orelse.value == "" and rv.endswith(".return_type.is_void()")
        rep.add(rid, f"{name}:`return` emitted iff the declared return type is not void", ok,
                f"opt_return <- {unparse(e)}, return_void = {rv}", f"{ci.mod.rel}:{fn.lineno}")
        lit = fc.literal("@")
        rep.add(rid, f"{name}:call statement shape `[return] callee(args);`", lit.replace(" ", "") == "@@@(@);",
                f"skeleton {lit!r}", f"{ci.mod.rel}:{fn.lineno}")
    iv = prog.method("ReturnType", "is_void")
    ret = iv.body[-1].value if isinstance(iv.body[-1], ast.Return) else None
    ok = False
    if isinstance(ret, ast.BoolOp) and isinstance(ret.op, ast.And) and len(ret.values) == 2:
        texts = sorted(unparse(v).replace(" ", "").replace('"', "'") for v in ret.values)
        ok = texts == sorted(["self.type1.typename.name=='void'", "notself.type2"])
    rep.add(rid, "ReturnType.is_void:first type is void and there is no second type", ok,
            unparse(ret) if ret is not None else "no return", f"{prog.cls('ReturnType').mod.rel}:{iv.lineno}")


def rule_property_polarity(ctx, rep: Report, rid="B5"):
    ci, prog = pw(ctx)
    fn = prog.method("PybindWrapper", "wrap_properties")
    fo = folder_for(ctx, fn)
    hit = False
    loopvar = next((l.target.id for l in ast.walk(fn) if isinstance(l, (ast.For, ast.comprehension)) and isinstance(l.target, ast.Name)), None)
    for c in format_sites(fn):
        t = fo.fold(c)
        if t is None:
            continue
        t = t.flat()
        # the slot that completes `.def_<...>`: found by its place in the emitted text, whatever the format key is called
        idx = next((i for i, p in enumerate(t.parts) if isinstance(p, Slot) and i > 0 and isinstance(t.parts[i - 1], str)
                    and t.parts[i - 1].endswith(".def_")), None)
        if idx is None:
            fixed = [p for p in t.parts if isinstance(p, str) and ".def_" in p]
            if fixed:
                hit = True
                rep.add(rid, "property:def_readonly iff the declared type is const, else def_readwrite", False,
                        f"the registration is the fixed text `{fixed[0][fixed[0].index('.def_'):][:24]}` whatever the declared type is: a const "
                        f"member registered def_readwrite does not compile, a mutable one registered def_readonly cannot be assigned", f"{ci.mod.rel}:{c.lineno}")
            continue
        hit = True
        e = t.parts[idx].val
        atom = f"{loopvar}.ctype.is_const"
        when = _two_way(e, atom)
        ok = when == ("readonly", "readwrite")
        detail = f"property <- {unparse(e)}: {when[0]!r} for a const type, {when[1]!r} otherwise" if when else f"property <- {unparse(e)}"
        if not ok and loopvar is not None:
            # written another way (a helper, a table): the choice is evaluated for every combination of the type's markers
            from .rules_matlab import SampleObj, _PathEval, _Raised, mini_exec
            probe = ast.parse(f"def _probe(self, {loopvar}):\n    return 0").body[0]
            probe.body[0].value = inline_locals(fn, e)
            wrong, err = [], None
            for const in ("const", ""):
                for sp in ("*", ""):
                    for rp in ("@", ""):
                        for ref in ("&", ""):
                            ct = SampleObj(__kind__="Type", is_const=const, is_shared_ptr=sp, is_ptr=rp, is_ref=ref, is_basic=False,
                                           typename=SampleObj(name="T", namespaces=[], instantiations=[]))
                            try:
                                got = mini_exec(probe, {"self": SampleObj(), loopvar: SampleObj(__kind__="Variable", name="p", ctype=ct, default=None)},
                                                methods=dict(ci.methods))
                            except (_PathEval.Unknown, _Raised, TypeError) as ex:
                                err = str(ex)
                                break
                            # `const T@` is a pointer to const: the member itself can be re-seated, either registration is right
                            want = ("readonly", "readwrite") if (const and rp and not sp) else (("readonly",) if const else ("readwrite",))
                            if got not in want:
                                wrong.append(f"{'const ' if const else ''}T{sp}{rp}{ref} -> def_{got}")
            if err is None:
                ok = not wrong
                detail = (f"property <- {unparse(e)[:60]}, evaluated for every combination of const / * / @ / &: {wrong[:3]}: a const member (`const T*` is a "
                          f"const std::shared_ptr<T>) registered def_readwrite does not compile, a mutable one registered def_readonly cannot be assigned")
        rep.add(rid, "property:def_readonly iff the declared type is const, else def_readwrite", ok, detail, f"{ci.mod.rel}:{c.lineno}")
        lit = t.literal("@").replace(" ", "")
        slots = t.slots()
        texts = [unparse(s_.val) for s_ in slots]
        rep.add(rid, "property:bound as &Class::name under the same name",
                lit == '@.def_@("@",&@::@)' and len(slots) == 5 and texts[2] == texts[4] == f"{loopvar}.name"
                and texts[3] == func_params(fn)[2],
                f"skeleton {lit!r}, slots {texts}", f"{ci.mod.rel}:{c.lineno}")
    if not hit:
        raise AnalysisError("wrap_properties: template not found")


def _two_way(e: ast.AST, atom: str) -> Optional[Tuple[object, object]]:
    """(value when `atom` is true, value when it is false) for a conditional expression whose test is the atom or its
    negation and whose branches are constants; None otherwise."""
    if not isinstance(e, ast.IfExp) or not isinstance(e.body, ast.Constant) or not isinstance(e.orelse, ast.Constant):
        return None
    t = e.test
    neg = False
    while isinstance(t, ast.UnaryOp) and isinstance(t.op, ast.Not):
        neg = not neg
        t = t.operand
    if unparse(t) != atom:
        return None
    return (e.orelse.value, e.body.value) if neg else (e.body.value, e.orelse.value)


def rule_operator_shape(ctx, rep: Report, rid="B7"):
    ci, prog = pw(ctx)
    fn = prog.method("PybindWrapper", "wrap_operators")
    loop = next((l for l in walk_no_nested(fn) if isinstance(l, ast.For)), None)
    if loop is None:
        # "".join(<text for op> for op in operators): the element expression is the loop body
        comp = next((c for c in walk_no_nested(fn) if isinstance(c, (ast.GeneratorExp, ast.ListComp)) and len(c.generators) == 1
                     and isinstance(c.generators[0].target, ast.Name)), None)
        if comp is None:
            raise AnalysisError("wrap_operators: loop not found")
        loop = ast.For(target=comp.generators[0].target, iter=comp.generators[0].iter, body=[comp.elt], orelse=[], lineno=comp.lineno)
    var = loop.target.id
    fo = folder_for(ctx, fn)
    fo_here = fo
    caller_args: Dict[str, ast.AST] = {}
    branches = []
    node = loop.body[0] if loop.body and isinstance(loop.body[0], ast.If) else None
    while isinstance(node, ast.If):
        branches.append((unparse(node.test), node.body))
        if node.orelse and not (len(node.orelse) == 1 and isinstance(node.orelse[0], ast.If)):
            branches.append(("else", node.orelse))
            break
        node = node.orelse[0] if node.orelse else None
    if not branches:
        # the per-operator text comes from a helper: `if <test>: return <text>` ... `return <text>`
        hcalls = [c for st in loop.body for c in ast.walk(st) if isinstance(c, ast.Call) and isinstance(c.func, ast.Attribute)
                  and unparse(c.func.value) == "self" and any(isinstance(a, ast.Name) and a.id == var for a in c.args)]
        if len(hcalls) == 1:
            h = prog.find_method(ci, hcalls[0].func.attr)
            if h is not None:
                hf = h[1]
                b = bind_call(hf, hcalls[0], drop_self=not any(unparse(d) == "staticmethod" for d in hf.decorator_list))
                caller_args = dict(b)
                pv = next((k for k, v in b.items() if isinstance(v, ast.Name) and v.id == var), None)
                if pv is not None:
                    for st in hf.body:
                        if isinstance(st, ast.If) and len(st.body) >= 1 and isinstance(st.body[-1], ast.Return) and not st.orelse:
                            branches.append((unparse(st.test).replace(pv, var), st.body))
                        elif isinstance(st, ast.Return):
                            branches.append(("else", [st]))
                    fo_here = folder_for(ctx, hf)

    def fold_any(e):
        t = fo_here.fold(e)
        if t is None and isinstance(e, ast.Name) and e.id in caller_args:
            t = fo.fold(caller_args[e.id])
        return t

    def emitted(body) -> str:
        """Skeleton of the text one dispatch branch produces (`@` = a slot, `OP` = the operator's own text)."""
        for st in body:
            for c in ast.walk(st):
                if isinstance(c, ast.Call) and isinstance(c.func, ast.Attribute) and c.func.attr == "format":
                    p = parent(c)
                    if isinstance(p, ast.Attribute) and p.attr == "format":
                        continue
                    # two stages: `template.format(<operand text>)` with the operand text itself a format call or an f-string
                    if len(c.args) == 1 and not c.keywords and (isinstance(c.args[0], ast.JoinedStr) or (
                            isinstance(c.args[0], ast.Call) and isinstance(c.args[0].func, ast.Attribute) and c.args[0].func.attr == "format")):
                        inner = fold_any(c.args[0])
                        outer = fold_any(c.func.value)
                        if inner is not None and outer is not None:
                            return outer.literal("@").replace("@", "", 1).replace("{0}", inner.literal("OP")).strip()
                    t = fold_any(c)
                    if t is not None:
                        return t.literal("@")
                elif isinstance(c, ast.JoinedStr) and not isinstance(parent(c), ast.Call):
                    t = fold_any(c)
                    if t is not None:
                        return t.literal("@")
        return ""
    seen = {}
    for test, body in branches:
        seen[test] = " ".join(emitted(body).split())
    exp = {f"{var}.operator == '[]'": ('__getitem__', 'operator[]'),
           f"{var}.operator == '()'": ('__call__', 'operator()')}
    for test, (py, cpp) in exp.items():
        got = seen.get(test, "")
        rep.add(rid, f"operator:{test.split('==')[-1].strip()} bound as {py} to &Class::{cpp}",
                f'"{py}"' in got and f"::{cpp})" in got, f"emitted {got!r}", f"{ci.mod.rel}:{loop.lineno}")
    un = seen.get(f"{var}.is_unary", "")
    bi = seen.get("else", "")
    rep.add(rid, "operator:unary branch emits one py::self operand", un.count("py::self") == 1 and "OP" in un and un.index("OP") < un.index("py::self"),
            f"emitted {un!r}", f"{ci.mod.rel}:{loop.lineno}")
    rep.add(rid, "operator:binary branch emits py::self OP py::self", bi.count("py::self") == 2 and "OP" in bi
            and bi.index("py::self") < bi.index("OP") < bi.rindex("py::self"), f"emitted {bi!r}", f"{ci.mod.rel}:{loop.lineno}")
    order = [t for t, _ in branches]
    rep.add(rid, "operator:dispatch order [] , () , unary , binary",
            order == [f"{var}.operator == '[]'", f"{var}.operator == '()'", f"{var}.is_unary", "else"], f"{order}",
            f"{ci.mod.rel}:{loop.lineno}")
    # is_unary itself
    oinit = prog.method("Operator", "__init__")
    iu = [unparse(s.value) for s in walk_no_nested(oinit) if isinstance(s, ast.Assign) and unparse(s.targets[0]) == "self.is_unary"]
    rep.add(rid, "Operator.is_unary:true exactly for zero arguments", iu == ["len(args) == 0"], f"{iu}",
            f"{prog.cls('Operator').mod.rel}:{oinit.lineno}")


def rule_same_entity(ctx, rep: Report, rid="B6"):
    ci, prog = pw(ctx)
    # enumerators
    fn = prog.method("PybindWrapper", "wrap_enum")
    fo = folder_for(ctx, fn)
    loop = next((l for l in walk_no_nested(fn) if isinstance(l, ast.For)), None)
    ok = False
    detail = ""

    def after(t: Tpl, ending: str) -> Optional[Slot]:
        """The slot that directly follows the literal text ending in `ending`."""
        for i, p_ in enumerate(t.parts):
            if isinstance(p_, Slot) and i > 0 and isinstance(t.parts[i - 1], str) and t.parts[i - 1].endswith(ending):
                return p_
        return None
    main = None
    for c in format_sites(fn):
        t = fo.fold(c)
        if t is not None and after(t.flat(), "py::enum_<") is not None:
            main = t.flat()
            break
    tslot = after(main, "py::enum_<") if main is not None else None
    if loop is not None and tslot is not None:
        for c in format_sites(loop):
            t = fo.fold(c)
            if t is None:
                continue
            t = t.flat()
            texts = [slot_text(s_) for s_ in t.slots()]
            lit = " ".join(t.literal("@").split())
            if ".value(" not in lit:
                continue
            detail = f"{lit!r} slots {texts}"
            ok = lit == '@ .value("@", @::@)' and len(texts) == 4 and texts[1] == texts[3] == f"{loop.target.id}.name" \
                and unparse(loop.iter).endswith(".enumerators") and texts[2] == slot_text(tslot)
    rep.add(rid, "enum:each enumerator bound to the C++ enumerator of the same name, in declared order", ok, detail,
            f"{ci.mod.rel}:{fn.lineno}")
    cc = [unparse(v) for v in values_of(fn, tslot.expr)] if tslot is not None else []
    cname = unparse(tslot.expr) if tslot is not None else "?"
    rep.add(rid, "enum:C++ type is the enum's own qualified name (class-scoped: Class::Enum)",
            cc[:1] == ["enum.cpp_typename().to_cpp()"] and any(x == f"class_name + '::' + {cname}" for x in cc), f"{cc}",
            f"{ci.mod.rel}:{fn.lineno}")
    # base class
    fn = prog.method("PybindWrapper", "wrap_instantiated_class")
    ip = func_params(fn)[1]
    fo = folder_for(ctx, fn)
    decl_tpls = []
    for st in walk_no_nested(fn):
        if isinstance(st, ast.Assign):
            t = fo.fold(st.value)
            if t is not None and t.slot("class_parent") is not None and t.slot("cpp_class") is not None:
                decl_tpls.append((st, t))
    # a piece that other declaration templates are built from (`class_type + '(...)'`) is judged as part of those
    pieces = {unparse(st.targets[0]) for st, _ in decl_tpls if len(st.targets) == 1 and isinstance(st.targets[0], ast.Name)
              and any(st2 is not st and any(isinstance(x, ast.Name) and x.id == unparse(st.targets[0]) for x in ast.walk(st2.value))
                      for st2, _ in decl_tpls)}
    decl_tpls = [(st, t) for st, t in decl_tpls if not (len(st.targets) == 1 and unparse(st.targets[0]) in pieces)]
    if not decl_tpls:
        raise AnalysisError("wrap_instantiated_class: class declaration template not found")
    okp_all, guards_all, details = True, [], []
    for st_, t_ in decl_tpls:
        # the base-class slot as one conditional value (a ternary, or an if/else statement binding the local): the base when the
        # class declares one, nothing otherwise
        v_ = t_.slot("class_parent").val
        okp, shown = False, unparse(v_)[:60] if v_ is not None else None
        if isinstance(v_, ast.IfExp):
            test, yes, no = v_.test, v_.body, v_.orelse
            while isinstance(test, ast.UnaryOp) and isinstance(test.op, ast.Not):
                test, yes, no = test.operand, no, yes
            okp = unparse(test).strip("()") == f"{ip}.parent_class" and f"{ip}.parent_class" in unparse(yes) \
                and isinstance(no, ast.Constant) and no.value == ""
        okp_all = okp_all and okp
        details.append(f"line {st_.lineno}: class_parent <- {shown}")
    rep.add(rid, "class:py::class_<...> names the declared base iff there is one", okp_all,
            "; ".join(details) + ": every registration of the class (with or without enums in its body) must carry the declared base, "
            "otherwise the Python class silently loses its inherited members", f"{ci.mod.rel}:{fn.lineno}")
    decls = [" ".join(t.deep_literal("@").split()) for _, t in decl_tpls]
    rep.add(rid, "class:registered as py::class_<Class, [Base,] std::shared_ptr<Class>>(module, \"Name\")",
            len(decls) == 2 and all(d.startswith("py::class_<@, @std::shared_ptr<@>>") for d in decls), f"{decls}",
            f"{ci.mod.rel}:{fn.lineno}")
    # callee spelling
    for name in ("_wrap_method", "wrap_functions"):
        f2 = emitter(ctx, name)
        fc = find_tpl(ctx, f2, {"opt_return", "caller"})
        slot = None
        if fc is not None:
            slot = fc.slot("method_name") or fc.slot("function_name")
        v = [unparse(x) for x in values_of(f2, slot.expr)] if slot is not None else []
        rep.add(rid, f"{name}:callee spelled by to_cpp() (explicit template arguments)",
                len(v) == 1 and v[0].endswith(".to_cpp()"), f"callee slot <- {v}", f"{ci.mod.rel}:{f2.lineno}")
    # qualification of free functions / variables = full namespace path of the namespace being wrapped
    wn = prog.method("PybindWrapper", "wrap_namespace")
    nsvar = _namespaces_local(wn)
    quals = []
    for c in walk_no_nested(wn):
        if isinstance(c, ast.Call) and unparse(c.func) == "self._add_namespaces":
            quals.append([unparse(a) for a in c.args])
    nsdef = [unparse(v) for v in values_of(wn, ast.Name(id=nsvar, ctx=ast.Load()))]
    evaluated = _qualifier_by_evaluation(ctx, wn, nsvar)
    if evaluated is not None:
        bad = [f"{what} in {'::'.join(ns) or '(global)'} with top module {'::'.join(top) or '(none)'}: `{got}`" for what, ns, top, got, ok_ in evaluated if not ok_]
        rep.add(rid, "free functions and variables qualified with the full namespace path of their namespace",
                not bad and nsdef == [f"{func_params(wn)[1]}.full_namespaces()"],
                f"qualifier put in front of the name, evaluated on sample namespace paths: {bad[:3]} (the full path `a::b::c::` is required whatever the top module is: "
                f"a shorter one names another function or none); {nsvar} = {nsdef}", f"{ci.mod.rel}:{wn.lineno}")
    else:
        rep.add(rid, "free functions and variables qualified with the full namespace path of their namespace",
                len(quals) == 2 and all(q == ["''", nsvar] for q in quals) and nsdef == [f"{func_params(wn)[1]}.full_namespaces()"],
                f"_add_namespaces called with {quals}; {nsvar} = {nsdef}", f"{ci.mod.rel}:{wn.lineno}")


def _inline_except(fn, expr, keep: Set[str], depth: int = 5):
    """inline_locals that leaves the names in `keep` alone."""
    from .prog import clone_expr
    params = set(func_params(fn))

    class T(ast.NodeTransformer):
        def __init__(self, d):
            self.d = d

        def visit_Name(self, node):
            if isinstance(node.ctx, ast.Load) and node.id not in params and node.id not in keep and self.d > 0:
                v = value_def(fn, node.id)
                if v is not None:
                    return T(self.d - 1).visit(clone_expr(v))
            return node
    return T(depth).visit(clone_expr(expr))


def _qualifier_by_evaluation(ctx, wn, nsvar):
    """[(what, namespace path, top module, text put in front of the name, ok)] for the calls of wrap_functions / wrap_variable in
    wrap_namespace: the argument that carries the scope is evaluated (own interpreter, helpers of the class followed) for sample
    paths and top-module settings, then pushed through the way the callee puts it in front of the name.  None when a step is
    written in a way the interpreter does not follow."""
    from .rules_matlab import SampleObj, _PathEval, _Raised, mini_exec
    ci, prog = pw(ctx)
    out = []
    targets = []
    for c in walk_no_nested(wn):
        if isinstance(c, ast.Call) and isinstance(c.func, ast.Attribute) and unparse(c.func.value) == "self" and c.func.attr in ("wrap_functions", "wrap_variable"):
            callee = prog.method("PybindWrapper", c.func.attr)
            b = bound_args(callee, c)
            if "namespace" not in b:
                return None
            targets.append((c.func.attr, callee, _inline_except(wn, b["namespace"], {nsvar})))
    if len(targets) < 2:
        return None
    methods = dict(ci.methods)

    def probe(params, expr, env):
        fn_ = ast.parse("def _probe(" + ", ".join(params) + "):\n    return 0").body[0]
        fn_.body[0].value = expr
        return mini_exec(fn_, env, budget=3000, methods=methods)
    try:
        for what, callee, argx in targets:
            # how the callee places its `namespace` parameter in front of the name
            if what == "wrap_functions":
                tpl = find_tpl(ctx, emitter(ctx, "wrap_functions"), {"opt_return", "caller"})
                use = tpl.slot("caller").val if tpl is not None and tpl.slot("caller") is not None else None
                host = emitter(ctx, "wrap_functions")
            else:
                tpl = find_tpl(ctx, callee, {"variable_name", "namespace"})
                use = tpl.slot("namespace").val if tpl is not None and tpl.slot("namespace") is not None else None
                host = callee
            if use is None:
                return None
            use = inline_locals(host, use)
            hp = [p for p in func_params(host) if p != "self"]
            if "namespace" not in hp:
                return None
            for ns in ([""], ["", "a"], ["", "a", "b", "c"]):
                for top in ([""], ["", "a"], ["", "a", "b"]):
                    if top[1:] != ns[1:len(top)]:
                        continue
                    me = SampleObj(top_module_namespaces=list(top))
                    arg = probe(["self", nsvar], argx, {"self": me, nsvar: list(ns)})
                    got = probe(["self", "namespace"], use, {"self": me, "namespace": arg})
                    want = "::".join(ns[1:]) + "::" if len(ns) > 1 else ""
                    ok_ = isinstance(got, str) and (got == want or got == "::" + want)
                    out.append((what, ns, top, got, ok_))
    except (_PathEval.Unknown, _Raised, AnalysisError, SyntaxError):
        return None
    return out


def _namespaces_local(wn) -> str:
    """Name of the local holding the namespace path in wrap_namespace: the first argument of the
    self._partial_match(...) call."""
    for c in walk_no_nested(wn):
        if isinstance(c, ast.Call) and unparse(c.func) == "self._partial_match" and c.args and isinstance(c.args[0], ast.Name):
            return c.args[0].id
    for st in walk_no_nested(wn):
        if isinstance(st, ast.Assign) and len(st.targets) == 1 and isinstance(st.targets[0], ast.Name) \
                and unparse(st.value) == f"{func_params(wn)[1]}.full_namespaces()":
            return st.targets[0].id
    raise AnalysisError("wrap_namespace: namespace-path local not found (no self._partial_match call)")


def _result_names(wn) -> Tuple[str, str]:
    """(wrapped, includes): the two names returned by wrap_namespace's final return."""
    rets = sorted((r for r in walk_no_nested(wn) if isinstance(r, ast.Return) and isinstance(r.value, ast.Tuple)
                   and all(isinstance(x, ast.Name) for x in r.value.elts)), key=lambda r: r.lineno)
    if not rets:
        raise AnalysisError("wrap_namespace: `return wrapped, includes` not found")
    a, b = rets[-1].value.elts
    return a.id, b.id

# ==========================================================================================
# C03
def _content_kinds_after_instantiation(ctx) -> Tuple[Set[str], Set[str]]:
    """(kinds that can appear in namespace.content after instantiate_namespace, kinds it consumes)."""
    from .rules_tree import _alt_labels, _flatten_and, _action_of
    from .rules_grammar import parse_root
    g, aa, prog = ctx.grammar, ctx.actions, ctx.prog
    root, _ = parse_root(ctx)
    rep_node = None
    for c in _flatten_and(root):
        if c.kind == "ZeroOrMore":
            rep_node = c
    if rep_node is None:
        raise AnalysisError("Module.rule: repetition not found")
    from .rules_tree import _flatten_alt
    alts = _flatten_alt(rep_node.children[0], ("Or", "MatchFirst"))
    produced: Set[str] = set()
    for a in alts:
        an = _action_of(g, a)
        produced |= aa.constructed_classes(an.action)
    fn = prog.func("gtwrap/template_instantiator/namespace.py", "instantiate_namespace")
    mi = prog.module("gtwrap/template_instantiator/namespace.py")
    loop = next(l for l in fn.body if isinstance(l, ast.For))
    consumed: Set[str] = set()
    node = loop.body[0]
    while isinstance(node, ast.If):
        cs = _isinstance_classes(prog, mi, node.test)
        if cs and isinstance(node.test.args[0], ast.Name) and node.test.args[0].id == loop.target.id:
            consumed |= cs
        node = node.orelse[0] if node.orelse and isinstance(node.orelse[0], ast.If) else None
    built: Set[str] = set()
    for c in ast.walk(loop):
        if isinstance(c, ast.Call) and isinstance(c.func, ast.Attribute) and c.func.attr == "append" and c.args:
            a = c.args[0]
            if isinstance(a, ast.Call):
                rc = prog.resolve_class(a.func, mi)
                if rc is not None:
                    built.add(rc.qual)
    after = set()
    for k in produced:
        kc = prog.cls(k)
        if not any(prog.is_subclass(kc, prog.cls(c)) for c in consumed):
            after.add(k)
    after |= built
    after.add("Namespace")
    return after, consumed


NODE_KIND_EXEMPT = {"ForwardDeclaration": "a forward declaration only declares a foreign type; it binds nothing "
                                          "(its typedef'd instantiations arrive as InstantiatedDeclaration)"}


def rule_node_kinds(ctx, rep: Report, rid="A1", wrapper="PybindWrapper"):
    prog = ctx.prog
    ci = prog.cls(wrapper)
    fn = prog.method(wrapper, "wrap_namespace")
    after, consumed = _content_kinds_after_instantiation(ctx)
    handled: Set[str] = set()
    for t in ast.walk(fn):
        cs = _isinstance_classes(prog, ci.mod, t) if isinstance(t, ast.Call) else None
        if cs:
            handled |= cs
    for k in sorted(after):
        kc = prog.cls(k)
        ok = any(prog.is_subclass(kc, prog.cls(h)) or k == h for h in handled)
        if not ok and k in NODE_KIND_EXEMPT:
            rep.add(rid, f"kind:{k}:has an emitter in {wrapper}.wrap_namespace", True, "exempt: " + NODE_KIND_EXEMPT[k],
                    f"{ci.mod.rel}:{fn.lineno}", nontrivial=False)
            continue
        rep.add(rid, f"kind:{k}:has an emitter in {wrapper}.wrap_namespace", ok,
                f"a {k} can appear in an instantiated namespace but no isinstance branch of wrap_namespace handles "
                f"it: such declarations are silently not bound (handled: {sorted(handled)})", f"{ci.mod.rel}:{fn.lineno}")
    rep.units["content_kinds_after_instantiation"] = sorted(after)
    if len(after) < 7:
        raise AnalysisError(f"{rep.prop}/{rid}: {len(after)} content kinds, >= 7 expected")


def rule_member_kinds(ctx, rep: Report, rid="A2"):
    from .rules_tree import member_list_map
    ci, prog = pw(ctx)
    lists = sorted(member_list_map(ctx, "Class.Members"))
    fn = prog.method("PybindWrapper", "wrap_instantiated_class")
    fo = folder_for(ctx, fn)
    p = func_params(fn)[1]
    rets = sorted((r for r in walk_no_nested(fn) if isinstance(r, ast.Return) and r.value is not None), key=lambda r: r.lineno)
    t = fo.fold(rets[-1].value)
    if t is None:
        raise AnalysisError("wrap_instantiated_class: class template not foldable")
    bound_text = " ".join(unparse(s.val) for s in t.slots() if s.val is not None)
    # helpers that receive the whole class read their list themselves
    for s in t.slots():
        if isinstance(s.val, ast.Call) and any(isinstance(a, ast.Name) and a.id == p for a in s.val.args):
            callee = prog.find_method(ci, s.val.func.attr) if isinstance(s.val.func, ast.Attribute) else None
            if callee:
                q = func_params(callee[1])[1]
                for x in ast.walk(callee[1]):
                    if isinstance(x, ast.Attribute) and isinstance(x.value, ast.Name) and x.value.id == q:
                        bound_text += f" {p}.{x.attr}"
    wn = prog.method("PybindWrapper", "wrap_namespace")
    wn_text = unparse(wn)
    n = 0
    for l in lists:
        n += 1
        if l == "enums":
            ok = "self.wrap_enums(element.enums, element)" in wn_text.replace("\n", " ")
            ok = ok or any(isinstance(c, ast.Call) and unparse(c.func) == "self.wrap_enums" and unparse(c.args[0]).endswith(".enums")
                           for c in ast.walk(wn))
            where = "wrap_namespace (class dispatch site)"
        else:
            ok = f"{p}.{l}" in bound_text
            where = "the class template of wrap_instantiated_class"
        rep.add(rid, f"member-kind:{l}:emitted", ok,
                f"the member list `{l}` of an instantiated class is not bound to any slot of {where}: those "
                f"members are silently not exposed", f"{ci.mod.rel}:{rets[-1].lineno}")
    if n < 7:
        raise AnalysisError(f"{rep.prop}/{rid}: {n} member kinds, 7 expected")
    lit = t.literal("@")
    rep.add(rid, "class block is one statement: declaration, members, `;`", lit.strip().endswith(";") and lit.count(";") == 1,
            f"skeleton {lit!r}", f"{ci.mod.rel}:{rets[-1].lineno}")


def _is_common_prefix_test(pm: ast.FunctionDef) -> bool:
    """pm(self, a, b) answers "a and b agree on every position both have": one of the normal forms
    - a loop over range(min(len a, len b)) that answers False at the first position where the two differ, True after it;
    - all(a[i] == b[i] for i in range(min..)) / not any(a[i] != b[i] ...), or the same over zip(a, b) (zip stops at the
      shorter list);
    - a[:n] == b[:n] with n = min(len a, len b).
    Locals that stand for one expression are read through."""
    a, b = func_params(pm)[1:3]

    def is_min(e) -> bool:
        t = unparse(inline_locals(pm, e)).replace(" ", "")
        return t in (f"min(len({a}),len({b}))", f"min(len({b}),len({a}))")

    def relation(t, xs, ys) -> Optional[bool]:
        """True: t says the pair is equal, False: t says it differs, None: something else."""
        neg = False
        while isinstance(t, ast.UnaryOp) and isinstance(t.op, ast.Not):
            neg, t = not neg, t.operand
        if not (isinstance(t, ast.Compare) and len(t.ops) == 1 and isinstance(t.ops[0], (ast.Eq, ast.NotEq))):
            return None
        l, r = unparse(t.left).replace(" ", ""), unparse(t.comparators[0]).replace(" ", "")
        if {l, r} != {xs, ys}:
            return None
        return isinstance(t.ops[0], ast.Eq) != neg

    def over(gen_or_loop):
        """(text of the two compared elements) for `for i in range(min)` / `for x, y in zip(a, b)`."""
        it, tg = gen_or_loop.iter, gen_or_loop.target
        if isinstance(it, ast.Call) and unparse(it.func) == "range" and len(it.args) == 1 and is_min(it.args[0]) and isinstance(tg, ast.Name):
            return f"{a}[{tg.id}]", f"{b}[{tg.id}]"
        if isinstance(it, ast.Call) and unparse(it.func) == "zip" and len(it.args) == 2 and {unparse(x) for x in it.args} == {a, b} \
                and isinstance(tg, ast.Tuple) and len(tg.elts) == 2 and all(isinstance(x, ast.Name) for x in tg.elts):
            return tg.elts[0].id, tg.elts[1].id
        return None
    body = [st for st in pm.body if not (isinstance(st, ast.Expr) and isinstance(st.value, ast.Constant))]
    body = [st for st in body if not (isinstance(st, ast.Assign) and len(st.targets) == 1 and isinstance(st.targets[0], ast.Name)
                                      and value_def(pm, st.targets[0].id) is not None)]
    # loop form
    if len(body) == 2 and isinstance(body[0], ast.For) and isinstance(body[1], ast.Return) and not body[0].orelse:
        el = over(body[0])
        lb = body[0].body
        if el and len(lb) == 1 and isinstance(lb[0], ast.If) and not lb[0].orelse and len(lb[0].body) == 1 and isinstance(lb[0].body[0], ast.Return):
            return relation(lb[0].test, *el) is False and unparse(lb[0].body[0].value) == "False" and unparse(body[1].value) == "True"
        return False
    if len(body) != 1 or not isinstance(body[0], ast.Return) or body[0].value is None:
        return False
    e = inline_locals(pm, body[0].value)
    neg = False
    while isinstance(e, ast.UnaryOp) and isinstance(e.op, ast.Not):
        neg, e = not neg, e.operand
    if isinstance(e, ast.Call) and isinstance(e.func, ast.Name) and e.func.id in ("all", "any") and len(e.args) == 1 \
            and isinstance(e.args[0], (ast.GeneratorExp, ast.ListComp)) and len(e.args[0].generators) == 1 and not e.args[0].generators[0].ifs:
        el = over(e.args[0].generators[0])
        rel = relation(e.args[0].elt, *el) if el else None
        return (e.func.id == "all" and rel is True and not neg) or (e.func.id == "any" and rel is False and neg)
    if isinstance(e, ast.Compare) and len(e.ops) == 1 and isinstance(e.ops[0], ast.Eq) and not neg:
        sides = [e.left, e.comparators[0]]
        if all(isinstance(x, ast.Subscript) and isinstance(x.slice, ast.Slice) and x.slice.lower is None and x.slice.step is None
               and x.slice.upper is not None and is_min(x.slice.upper) for x in sides):
            return {unparse(x.value) for x in sides} == {a, b}
    return False


class _Depth:
    """Guards of wrap_namespace read as constraints on d = len(<path>) - len(self.top_module_namespaces): a guard built
    from the two lengths (directly, or through locals such as `depth = len(ns) - len(self.top_module_namespaces)`) is
    evaluated for concrete d; any other guard is unknown and constrains nothing."""
    T = 3

    def __init__(self, fn, ns: str):
        self.fn, self.ns = fn, ns
        d_ = single_def(fn, ns)
        self.ns_texts = {ns} | ({unparse(d_).replace(" ", "")} if d_ is not None else set())

    def _ev(self, e, d):
        if isinstance(e, ast.Constant) and isinstance(e.value, (int, bool)):
            return e.value
        if isinstance(e, ast.Call) and unparse(e.func) == "len" and len(e.args) == 1:
            a = unparse(e.args[0]).replace(" ", "")
            if a in self.ns_texts:
                return self.T + d
            if a == "self.top_module_namespaces":
                return self.T
            return None
        if isinstance(e, ast.BinOp) and isinstance(e.op, (ast.Add, ast.Sub)):
            l, r = self._ev(e.left, d), self._ev(e.right, d)
            if l is None or r is None:
                return None
            return l + r if isinstance(e.op, ast.Add) else l - r
        if isinstance(e, ast.UnaryOp) and isinstance(e.op, ast.Not):
            v = self._ev(e.operand, d)
            return None if v is None else (not v)
        if isinstance(e, ast.UnaryOp) and isinstance(e.op, ast.USub):
            v = self._ev(e.operand, d)
            return None if v is None else -v
        if isinstance(e, ast.Compare) and len(e.ops) == 1:
            l, r = self._ev(e.left, d), self._ev(e.comparators[0], d)
            if l is None or r is None:
                return None
            op = e.ops[0]
            return {ast.Lt: l < r, ast.LtE: l <= r, ast.Gt: l > r, ast.GtE: l >= r, ast.Eq: l == r, ast.NotEq: l != r}.get(type(op))
        if isinstance(e, ast.BoolOp):
            vs = [self._ev(v, d) for v in e.values]
            if isinstance(e.op, ast.And):
                if any(v is False for v in vs):
                    return False
                return None if any(v is None for v in vs) else True
            if any(v is True for v in vs):
                return True
            return None if any(v is None for v in vs) else False
        return None

    def value(self, text: str, d: int):
        """Truth of the guard `text` at depth d, or None when it does not (only) speak about the depth."""
        try:
            e = inline_locals(self.fn, ast.parse(text, mode="eval").body)
        except SyntaxError:
            return None
        v = self._ev(e, d)
        return None if v is None else bool(v)

    def possible(self, guards, d: int) -> bool:
        """Can a statement under `guards` [(text, polarity)] execute at depth d?"""
        for t, pol in guards:
            v = self.value(t, d)
            if v is not None and v != pol:
                return False
        return True

    def speaks_of_depth(self, text: str) -> bool:
        return self.value(text, 0) is not None or self.value(text, 1) is not None


def rule_top_namespace_filter(ctx, rep: Report, rid="A3"):
    ci, prog = pw(ctx)
    fn = prog.method("PybindWrapper", "wrap_namespace")
    # first emission
    ns = _namespaces_local(fn)
    wrapped_name, includes_name = _result_names(fn)
    emits = sorted((n for n in walk_no_nested(fn) if isinstance(n, ast.AugAssign) and isinstance(n.target, ast.Name)
                    and n.target.id in (wrapped_name, includes_name)), key=lambda n: n.lineno)
    guard = None
    for st in fn.body:
        if isinstance(st, ast.If) and "_partial_match" in unparse(st.test) and st.body and isinstance(st.body[0], ast.Return):
            guard = st
    ok = guard is not None and all(guard.lineno < e.lineno for e in emits) and \
        unparse(guard.test).replace(" ", "") == f"notself._partial_match({ns},self.top_module_namespaces)" and \
        unparse(guard.body[0].value) in ("('', '')",)
    rep.add(rid, "wrap_namespace:returns empty before any emission when the path is not prefix-compatible with the top namespace",
            ok, f"guard {unparse(guard.test) if guard else None}", f"{ci.mod.rel}:{fn.lineno}")
    # prefix test normal form
    pm = prog.method("PybindWrapper", "_partial_match")
    # decided by running the function on sample paths with the analyser's interpreter (whatever its spelling); the recogniser
    # of normal forms is the fallback for a spelling the interpreter does not cover
    from .rules_matlab import mini_exec, _PathEval
    a_, b_ = func_params(pm)[1:3]
    samples = [([""], ["", "g"], True), (["", "g"], ["", "g"], True), (["", "h"], ["", "g"], False), (["", "g", "x"], ["", "g"], True),
               (["", "h", "x"], ["", "g"], False), (["", "g"], [""], True), (["x"], ["", "g"], False), (["", "g", "x"], ["", "g", "y"], False),
               (["", "g", "x"], ["", "g", "x", "z"], True), ([], ["", "g"], True),
               # components are compared whole: `gt` is not on the way to `gtsam`, `a::bc` is not `a::b` + `c`, and a separator inside
               # a joined text does not make `a`, `b::c` equal to `a::b`, `c`
               (["", "gt"], ["", "gtsam"], False), (["", "gtsam"], ["", "gt"], False), (["", "g", "xy"], ["", "g", "x"], False),
               (["", "g", "x"], ["", "g", "xy", "z"], False), (["", "g::x"], ["", "g", "x"], False), (["", "gx"], ["", "g", "x"], False)]
    try:
        wrong = [(x, y) for x, y, w in samples if bool(mini_exec(pm, {"self": None, a_: x, b_: y})) != w]
        ok2 = not wrong
        pm_detail = f"answers differ from 'agree on every position both have' for {wrong[:2]}" if wrong else "agrees on all sample paths"
    except _PathEval.Unknown:
        ok2 = _is_common_prefix_test(pm)
        pm_detail = unparse(pm)[-200:].replace("\n", " ")
    rep.add(rid, "_partial_match:all positions below min(len a, len b) equal", ok2, pm_detail + ": a namespace that is a sibling of the top namespace at "
            "the same depth (or diverges from it higher up) must be refused, one on the path to it or inside it accepted",
            f"{ci.mod.rel}:{pm.lineno}")
    # above the top namespace (d < 0) nothing is bound: only include lines are collected and deeper namespaces descended into
    dp = _Depth(fn, ns)
    rec_names = set()
    for st in walk_no_nested(fn):
        if isinstance(st, ast.Assign) and isinstance(st.value, ast.Call) and unparse(st.value.func) == "self.wrap_namespace":
            for t_ in st.targets:
                rec_names |= {x.id for x in ast.walk(t_) if isinstance(x, ast.Name)}

    def fed_only_inside(value) -> bool:
        """The emitted value is a call on a local list that receives elements only at d >= 0 (an empty list above the top
        namespace yields no text)."""
        if not isinstance(value, ast.Call):
            return False
        for a_ in list(value.args) + [k.value for k in value.keywords]:
            if isinstance(a_, ast.Name) and a_.id not in func_params(fn):
                feeds = [c for c in walk_no_nested(fn) if isinstance(c, ast.Call) and isinstance(c.func, ast.Attribute) and c.func.attr in ("append", "extend")
                         and isinstance(c.func.value, ast.Name) and c.func.value.id == a_.id]
                binds = [st for st in local_assignments(fn).get(a_.id, []) if isinstance(st, ast.Assign)]
                lits = all(isinstance(st.value, (ast.List, ast.ListComp)) for st in binds)
                if not lits or not (feeds or binds):
                    continue
                sites = feeds + [st for st in binds if isinstance(st.value, ast.ListComp) or (isinstance(st.value, ast.List) and st.value.elts)]
                if sites and all(not dp.possible(guards_of(x, fn, include_exits=True), -1) and not dp.possible(guards_of(x, fn, include_exits=True), -2) for x in sites):
                    return True
        return False
    leaks, rec_above, inc_above = [], False, False
    for e in emits:
        gs_ = guards_of(e, fn, include_exits=True)
        above = dp.possible(gs_, -1) or dp.possible(gs_, -2)
        is_rec = isinstance(e.value, ast.Name) and e.value.id in rec_names
        if e.target.id == includes_name:
            inc_above = inc_above or above
            continue
        if is_rec:
            rec_above = rec_above or above
            continue
        if above and not fed_only_inside(e.value):
            leaks.append(f"line {e.lineno}: {unparse(e)[:60]}")
    rep.add(rid, "wrap_namespace:above the top namespace only includes are collected and namespaces descended into",
            not leaks and rec_above and inc_above,
            f"bound above the top namespace: {leaks}; deeper namespaces reached from above: {rec_above}; includes collected above: {inc_above} "
            f"(guards read as constraints on len(<path>) - len(self.top_module_namespaces)): a declaration outside the top namespace must not be "
            f"registered on the top module, and the top namespace must still be reached through its enclosing namespaces", f"{ci.mod.rel}:{fn.lineno}")


def rule_depth_relative(ctx, rep: Report, rid="A7"):
    ci, prog = pw(ctx)
    n = 0
    # the module variable of a namespace is spelt from the components *below the top namespace by position*: evaluated by the
    # analyser on sample paths (a component below the top namespace that repeats the name of one above it must stay)
    from .rules_matlab import _PathEval
    gm_ = prog.method("PybindWrapper", "_gen_module_var")
    pname = func_params(gm_)[1]
    rets_ = [r.value for r in walk_no_nested(gm_) if isinstance(r, ast.Return) and r.value is not None]
    got_, want_, err_ = [], [], None
    for top, path, want in ((["", "a"], ["", "a"], "m_"), (["", "a"], ["", "a", "b", "a"], "m_b_a"), ([""], ["", "x", "y"], "m_x_y"),
                            (["", "a", "b"], ["", "a", "b", "c"], "m_c")):
        want_.append(want)
        try:
            got_.append(_PathEval(gm_, path).ev(rets_[0], {pname: path, "self.top_module_namespaces": top}) if len(rets_) == 1 else None)
        except _PathEval.Unknown as ex:
            err_ = str(ex)
            break
    if err_ is not None:
        raise AnalysisError(f"_gen_module_var: built in a way this rule cannot evaluate ({err_})")
    rep.add(rid, "_gen_module_var:names the components below the top namespace, by position", got_ == want_,
            f"for (top, path) = (a, a), (a, a::b::a), ('', x::y), (a::b, a::b::c) the module variable is {got_}, it has to be {want_}: a component that "
            f"is dropped because it *equals* a top-namespace name (rather than because of where it stands) merges `a::b::a` into `a::b`", f"{ci.mod.rel}:{gm_.lineno}")
    for name in ("_gen_module_var", "wrap_namespace"):
        fn = prog.method("PybindWrapper", name)
        path = func_params(fn)[1] if name == "_gen_module_var" else _namespaces_local(fn)
        for x in walk_no_nested(fn):
            # slices of a namespace path
            if isinstance(x, ast.Subscript) and isinstance(x.slice, ast.Slice) and isinstance(x.value, ast.Name) \
                    and x.value.id == path:
                sl = unparse(x.slice).replace(" ", "")
                if sl == ":-1":
                    rep.add(rid, f"{name}:<path>[:-1]", True, "parent module path (named exception)", f"{ci.mod.rel}:{x.lineno}",
                            nontrivial=False)
                    continue
                n += 1
                ok = sl == "len(self.top_module_namespaces):"
                rep.add(rid, f"{name}:<path>[{sl}]", ok,
                        f"the module variable is computed from the namespace path sliced at `{sl}`; it must be "
                        f"relative to len(self.top_module_namespaces) - a constant is right only for a top "
                        f"namespace of that one depth", f"{ci.mod.rel}:{x.lineno}")
            if isinstance(x, ast.BinOp) and isinstance(x.op, ast.Sub) and f"len({path})" in (unparse(x.left), unparse(x.right)):
                # `depth = len(<path>) - len(self.top_module_namespaces)`: the same comparison, written as a difference
                n += 1
                other = unparse(x.right if unparse(x.left) == f"len({path})" else x.left).replace(" ", "")
                rep.add(rid, f"{name}:{unparse(x).replace(path, '<path>')[:60]}", other == "len(self.top_module_namespaces)",
                        f"namespace depth is taken relative to {other}; it must be relative to len(self.top_module_namespaces)", f"{ci.mod.rel}:{x.lineno}")
            if isinstance(x, ast.Compare) and f"len({path})" in unparse(x):
                n += 1
                others = [unparse(o).replace(" ", "") for o in [x.left] + x.comparators if f"len({path})" not in unparse(o)]
                ok = others == ["len(self.top_module_namespaces)"]
                rep.add(rid, f"{name}:{unparse(x).replace(path, '<path>')[:60]}", ok,
                        f"namespace depth is compared with {others}; it must be compared with "
                        f"len(self.top_module_namespaces)", f"{ci.mod.rel}:{x.lineno}")
    if n < 1:
        raise AnalysisError(f"{rep.prop}/{rid}: no depth computation (slice of / comparison with the namespace path) found")


def submodules_verdict(ctx):
    """wrap_namespace run (the analyser's own interpreter) on a tree of namespaces in which `top`, `top::outer` and
    `top::outer::inner` are re-opened - in sibling blocks and below two different blocks of a re-opened parent - for three
    choices of the top namespace: every namespace strictly below the top one gets its submodule variable declared exactly
    once, by `<parent variable>.def_submodule("<its name>"`, before the variable is used as a parent; nothing is declared for
    the top namespace itself or above it.  Returns the list of differences, or None when it cannot be run."""
    def mk():
        from .rules_matlab import SampleObj, _PathEval, _Raised, mini_exec
        ci, prog = pw(ctx)
        fn = prog.method("PybindWrapper", "wrap_namespace")
        ps = func_params(fn)

        def ns(name, path, content):
            n_ = SampleObj(__kind__="Namespace", name=name, content=content, full_namespaces=lambda p_=path: list(p_))
            for c_ in content:
                c_["parent"] = n_
            return n_

        def tree():
            deep_a = ns("deep", ["", "top", "outer", "inner", "deep"], [])
            deep_b = ns("deep", ["", "top", "outer", "inner", "deep"], [])
            inner_a = ns("inner", ["", "top", "outer", "inner"], [deep_a])
            inner_a2 = ns("inner", ["", "top", "outer", "inner"], [])
            inner_b = ns("inner", ["", "top", "outer", "inner"], [deep_b])
            outer_a = ns("outer", ["", "top", "outer"], [inner_a, inner_a2])
            outer_b = ns("outer", ["", "top", "outer"], [inner_b])
            other = ns("other", ["", "top", "other"], [ns("inner", ["", "top", "other", "inner"], [])])
            top1 = ns("top", ["", "top"], [outer_a, other])
            top2 = ns("top", ["", "top"], [outer_b])
            side = ns("side", ["", "side"], [ns("outer", ["", "side", "outer"], [])])
            return ns("", [""], [top1, side, top2])
        probs, ran = [], 0
        for top in ([""], ["", "top"], ["", "top", "outer"]):
            me = SampleObj(__kind__="PybindWrapper", top_module_namespaces=list(top), ignore_classes=[], module_name="mod", use_boost_serialization=False)
            init = ci.methods.get("__init__")
            for st in (walk_no_nested(init) if init is not None else ()):
                if isinstance(st, ast.Assign) and len(st.targets) == 1 and isinstance(st.targets[0], ast.Attribute) and unparse(st.targets[0].value) == "self" \
                        and st.targets[0].attr not in me:
                    try:
                        me[st.targets[0].attr] = ast.literal_eval(st.value)
                    except Exception:
                        pass
            env = {ps[0]: me, ps[1]: tree()}
            for p_, d_ in zip(ps[len(ps) - len(fn.args.defaults):], fn.args.defaults):
                try:
                    env.setdefault(p_, ast.literal_eval(d_))
                except Exception:
                    return None
            try:
                r = mini_exec(fn, env, budget=200000, methods=dict(ci.methods))
            except (_PathEval.Unknown, _Raised, TypeError, KeyError, IndexError, AttributeError):
                return None
            text = r[0] if isinstance(r, list) and r and isinstance(r[0], str) else (r if isinstance(r, str) else None)
            if text is None:
                return None
            ran += 1
            all_paths = [["", "top"], ["", "top", "outer"], ["", "top", "outer", "inner"], ["", "top", "outer", "inner", "deep"], ["", "top", "other"],
                         ["", "top", "other", "inner"], ["", "side"], ["", "side", "outer"]]
            decls = re.findall(r"pybind11::module\s+(\w+)\s*=\s*(\w+)\.def_submodule\(\"(\w*)\"", text)
            label = "::".join(top) or "(global)"
            for path in all_paths:
                under = path[:len(top)] == top[:len(path)] if len(path) <= len(top) else path[:len(top)] == top
                want = 1 if (under and len(path) > len(top)) else 0
                var = "m_" + "_".join(path[len(top):]) if len(path) > len(top) else None
                got = [d for d in decls if d[0] == var] if var else []
                if under and len(path) > len(top):
                    if len(got) != want:
                        probs.append(f"top namespace {label}: the variable of {'::'.join(path[1:])} is declared {len(got)} time(s)")
                        continue
                    parent_var = "m_" + "_".join(path[len(top):-1])
                    if got[0][1] != parent_var or got[0][2] != path[-1]:
                        probs.append(f"top namespace {label}: {'::'.join(path[1:])} is declared as {got[0][1]}.def_submodule(\"{got[0][2]}\")")
                    first_use = re.search(r"\b" + re.escape(var) + r"\b", text)
                    decl_at = re.search(r"pybind11::module\s+" + re.escape(var) + r"\b", text)
                    if first_use and decl_at and first_use.start() < decl_at.start():
                        probs.append(f"top namespace {label}: {var} is used before it is declared")
            extra = [d for d in decls if not any(d[0] == "m_" + "_".join(p[len(top):]) and p[:len(top)] == top and len(p) > len(top) for p in all_paths)]
            if extra:
                probs.append(f"top namespace {label}: submodules declared outside it: {extra[:2]}")
        return probs if ran == 3 else None
    return ctx._get("pybind_submodules_verdict", mk)


def rule_submodule_once(ctx, rep: Report, rid="A4"):
    ci, prog = pw(ctx)
    fn = prog.method("PybindWrapper", "wrap_namespace")
    verdict = submodules_verdict(ctx)
    rep.units["submodules_by_evaluation"] = verdict is not None
    if verdict is not None:
        rep.add(rid, "submodule:every namespace below the top namespace is declared once, under its parent, before it is used (re-opened namespaces included)",
                not verdict, f"wrap_namespace run on a tree with re-opened namespaces: {verdict[:3]}: a module variable declared twice does not compile, one that "
                f"is not declared is used by every binding of that namespace", f"{ci.mod.rel}:{fn.lineno}")
        return
    fo = folder_for(ctx, fn)
    site = None
    for x in walk_no_nested(fn):
        if isinstance(x, ast.AugAssign) and "def_submodule" in unparse(x.value):
            site = x
    if site is None:
        raise AnalysisError("wrap_namespace: def_submodule emission not found")
    t = fo.fold(site.value)
    tpl_ = t
    lit = " ".join(t.literal("@").split()) if t else ""
    rep.add(rid, "submodule:declared as `pybind11::module <var> = <parent>.def_submodule(\"<name>\", ...)`",
            lit.startswith('pybind11::module @ = @.def_submodule("@"') and t is not None
            and unparse(one_value(fn, t.slot("module_var").expr)) == f"self._gen_module_var({_namespaces_local(fn)})"
            and f"{_namespaces_local(fn)}[:-1]" in unparse(t.slot("parent_module_var").expr)
            and unparse(t.slot("namespace").expr) == f"{func_params(fn)[1]}.name",
            f"skeleton {lit!r}", f"{ci.mod.rel}:{site.lineno}")
    # before the loop that emits content
    loops = [l for l in walk_no_nested(fn) if isinstance(l, ast.For) and l.lineno > site.lineno
             and enclosing(l, ast.If) is enclosing(site, ast.If).__class__ and True]
    content_loops = [l for l in walk_no_nested(fn) if isinstance(l, ast.For) and any(
        isinstance(c, ast.Call) and unparse(c.func) in ("self.wrap_instantiated_class", "self.wrap_enum") for c in ast.walk(l))]
    rep.add(rid, "submodule:created before anything is placed in it",
            bool(content_loops) and all(site.lineno < l.lineno for l in content_loops),
            "the def_submodule statement must precede the loop emitting the namespace's content",
            f"{ci.mod.rel}:{site.lineno}")
    gs = []
    for t, pol in guards_of(site, fn, include_exits=False):
        if not pol:
            continue
        e = ast.parse(t, mode="eval").body
        gs += [unparse(v) for v in e.values] if isinstance(e, ast.BoolOp) and isinstance(e.op, ast.And) else [t]
    dp = _Depth(fn, _namespaces_local(fn))
    all_gs = guards_of(site, fn, include_exits=True)
    depth_guard = dp.possible(all_gs, 1) and dp.possible(all_gs, 2) and not dp.possible(all_gs, 0) and not dp.possible(all_gs, -1)
    once = any(("not in self." in g or "notin self." in g) for g in gs) or any("not in self." in g for g in gs)
    rep.add(rid, "submodule:only for namespaces strictly below the top namespace", depth_guard,
            f"guards {gs}: reachable at depth -1/0/1/2 relative to the top namespace: {[dp.possible(all_gs, d_) for d_ in (-1, 0, 1, 2)]}",
            f"{ci.mod.rel}:{site.lineno}")
    extra = [g for g in gs if not dp.speaks_of_depth(g) and "not in self." not in g]
    rep.add(rid, "submodule:declared on the first visit of every namespace below the top namespace (no further condition)", not extra,
            f"the declaration is skipped unless {extra}: the variable is still named as the parent of nested namespaces' "
            "submodules and as the target of every binding of this namespace, so the generated C++ uses an undeclared "
            "identifier whenever the extra condition is false", f"{ci.mod.rel}:{site.lineno}")
    # the first-visit test is about the identifier that gets declared: its key, and what is remembered, is the module variable
    declared = unparse(one_value(fn, tpl_.slot("module_var").expr)) if tpl_ is not None else ""
    keys, remembered = [], []
    for g_, pol in guards_of(site, fn, include_exits=False):
        if pol:
            for c_ in ast.walk(ast.parse(g_, mode="eval").body):
                if isinstance(c_, ast.Compare) and len(c_.ops) == 1 and isinstance(c_.ops[0], ast.NotIn) and unparse(c_.comparators[0]).startswith("self."):
                    keys.append((c_.left, unparse(c_.comparators[0])))
    blk = enclosing(site, ast.If)
    for k_, table in keys:
        for c_ in ast.walk(blk) if blk is not None else []:
            if isinstance(c_, ast.Call) and isinstance(c_.func, ast.Attribute) and unparse(c_.func.value) == table and c_.func.attr in ("append", "add") and c_.args:
                remembered.append(c_.args[0])

    def same_as_declared(e):
        return unparse(one_value(fn, e)) == declared or unparse(e) == unparse(tpl_.slot("module_var").expr)
    if keys:
        rep.add(rid, "submodule:the first-visit test and its memory are keyed by the declared module variable",
                all(same_as_declared(k_) for k_, _ in keys) and bool(remembered) and all(same_as_declared(r_) for r_ in remembered),
                f"tested {[unparse(k_) for k_, _ in keys]}, remembered {[unparse(r_) for r_ in remembered]}, declared `{declared}`: two different "
                f"namespaces that agree on the tested value (`a::detail`, `b::detail`) share one entry, the second one's variable is never declared "
                f"and everything registered on it does not compile", f"{ci.mod.rel}:{site.lineno}")
    rep.add(rid, "submodule:declared once per module variable", once,
            "the dialect allows re-opening a namespace (find_sub_namespace merges same-named namespaces); the "
            "submodule variable is declared on every visit, so `namespace n {..} namespace n {..}` declares "
            "`pybind11::module m_n` twice in one C++ scope" if not once else f"guards {gs}", f"{ci.mod.rel}:{site.lineno}")


def rule_ignore_dominates(ctx, rep: Report, rid="A5"):
    ci, prog = pw(ctx)
    fn = prog.method("PybindWrapper", "wrap_namespace")
    branch = None
    for i in ast.walk(fn):
        if isinstance(i, ast.If):
            cs = _isinstance_classes(prog, ci.mod, i.test)
            if cs == {"InstantiatedClass"}:
                branch = i
    if branch is None:
        raise AnalysisError("wrap_namespace: InstantiatedClass dispatch branch not found")
    n = 0
    block_var = None
    for st in branch.body:
        if isinstance(st, ast.Assign) and isinstance(st.value, ast.Call) and unparse(st.value.func) == "self.wrap_instantiated_class":
            block_var = st.targets[0].id
    for st in ast.walk(ast.Module(body=branch.body, type_ignores=[])):
        if isinstance(st, ast.AugAssign) and isinstance(st.target, ast.Name) and st.target.id == _result_names(fn)[0]:
            calls = [unparse(c.func) for c in ast.walk(st.value) if isinstance(c, ast.Call)]
            if "self.wrap_instantiated_class" in calls or (isinstance(st.value, ast.Name) and st.value.id == block_var):
                continue        # the class block itself (returns '' for an ignored class)
            n += 1
            gs = [t for t, pol in guards_of(st, fn, include_exits=False)]
            inner = [g for g in gs if g != unparse(branch.test)]
            ok = any((block_var and block_var in g) or "ignore_classes" in g for g in inner)
            rep.add(rid, f"class-dispatch:{unparse(st.value)[:50]}:not emitted for an ignored class", ok,
                    "this text is emitted for every class at the dispatch site, also when the class block itself "
                    "was suppressed by the ignore list: enums of an ignored class are still bound, into a class "
                    "variable that was never declared", f"{ci.mod.rel}:{st.lineno}")
    # the three ignore tests return empty text before building anything
    for name in ("wrap_instantiated_class", "wrap_instantiated_declaration", "wrap_stl_class"):
        f2 = prog.method("PybindWrapper", name)
        from .rules_matlab import _ignore_tests, _prepare_ignore_helpers
        _prepare_ignore_helpers(prog)
        tests = [i for i in f2.body if isinstance(i, ast.If) and _ignore_tests(i.test)]
        its = _ignore_tests(tests[0].test) if tests else []
        ok = len(tests) == 1 and isinstance(tests[0].body[0], ast.Return) and unparse(tests[0].body[0].value) == "''" \
            and len(its) == 1 and isinstance(its[0].ops[0], ast.In) and (its[0] is tests[0].test or isinstance(tests[0].test, ast.Call)) \
            and unparse(one_value(f2, its[0].left)) == f"{func_params(f2)[1]}.to_cpp()"
        rep.add(rid, f"{name}:ignored class yields no text", ok,
                f"ignore test {[unparse(t.test) for t in tests]}", f"{ci.mod.rel}:{f2.lineno}")
    if n < 1:
        raise AnalysisError(f"{rep.prop}/{rid}: no per-class emission besides the class block found")


def _name_table_value(v, mod) -> Optional[Set[str]]:
    """The set of strings an expression for a table of names denotes: literals, `+` of tables, list()/tuple()/sorted()/set() of a
    table, a module-level constant, and the tables of the standard `keyword` module (the analyser runs on the interpreter the
    tool runs on, so `keyword.kwlist` here is the list the tool would see)."""
    if isinstance(v, ast.Call) and unparse(v.func) in ("list", "tuple", "sorted", "set", "frozenset") and len(v.args) == 1 and not v.keywords:
        return _name_table_value(v.args[0], mod)
    if isinstance(v, ast.BinOp) and isinstance(v.op, ast.Add):
        a, b = _name_table_value(v.left, mod), _name_table_value(v.right, mod)
        return None if a is None or b is None else a | b
    if isinstance(v, ast.Attribute) and unparse(v) in ("keyword.kwlist", "keyword.softkwlist"):
        return set(getattr(keyword, v.attr, []))
    if isinstance(v, ast.Name):
        if v.id in ("kwlist", "softkwlist") and any(isinstance(x, ast.ImportFrom) and x.module == "keyword" and any(a.name == v.id and a.asname is None for a in x.names)
                                                    for x in mod.tree.body):
            return set(getattr(keyword, v.id, []))
        tops = [x.value for x in mod.tree.body if isinstance(x, ast.Assign) and len(x.targets) == 1
                and isinstance(x.targets[0], ast.Name) and x.targets[0].id == v.id]
        return _name_table_value(tops[0], mod) if len(tops) == 1 else None
    try:
        val = ast.literal_eval(v)
    except Exception:
        return None
    if isinstance(val, (list, tuple, set)) and all(isinstance(x, str) for x in val):
        return set(val)
    return None


def rule_keyword_escaping(ctx, rep: Report, rid="A6"):
    ci, prog = pw(ctx)
    init = prog.method("PybindWrapper", "__init__")
    kws = None
    for st in walk_no_nested(init):
        if isinstance(st, ast.Assign) and unparse(st.targets[0]) == "self.python_keywords":
            v = st.value
            # list(NAME) / tuple(NAME) / NAME of a module-level constant sequence
            if isinstance(v, ast.Call) and unparse(v.func) in ("list", "tuple", "sorted") and len(v.args) == 1 and not v.keywords:
                v = v.args[0]
            if isinstance(v, ast.Name):
                tops = [x.value for x in ci.mod.tree.body if isinstance(x, ast.Assign) and len(x.targets) == 1
                        and isinstance(x.targets[0], ast.Name) and x.targets[0].id == v.id]
                v = tops[0] if len(tops) == 1 else v
            kws = _name_table_value(v, ci.mod)
            kloc = st.lineno
    if kws is None:
        raise AnalysisError("PybindWrapper.python_keywords: literal list not found")
    extra = sorted(kws - set(keyword.kwlist))
    rep.add(rid, "python_keywords:contains reserved words only", not extra,
            f"{extra} are ordinary identifiers in Python (soft keywords such as `match`, `type`, `_` are): a method, static method or function declared "
            f"with such a name is bound as `{extra[0] if extra else ''}_` instead of under its declared name", f"{ci.mod.rel}:{kloc}")
    missing = sorted(set(keyword.kwlist) - kws)
    rep.add(rid, "python_keywords:contains every reserved word of Python", not missing,
            f"missing {missing}: a C++ method or function with such a name is bound under a name Python cannot "
            f"parse (`obj.{missing[0] if missing else ''}()` is a SyntaxError)", f"{ci.mod.rel}:{kloc}")
    def is_kw_test(fn, test, var):
        return isinstance(test, ast.Compare) and len(test.ops) == 1 and isinstance(test.ops[0], ast.In) \
            and unparse(test.left) == var and "python_keywords" in unparse(inline_locals(fn, test.comparators[0]))

    def is_escaped(e, var):
        return isinstance(e, ast.BinOp) and isinstance(e.op, ast.Add) and unparse(e.left) == var and \
            isinstance(e.right, ast.Constant) and e.right.value == "_"

    def escape_ifs(fn, var):
        out = []
        for i in walk_no_nested(fn):
            if isinstance(i, ast.If) and is_kw_test(fn, i.test, var):
                ok_body = any(isinstance(s, ast.Assign) and unparse(s.targets[0]) == var and is_escaped(s.value, var) for s in i.body) or \
                    any(isinstance(s, ast.AugAssign) and unparse(s.target) == var and isinstance(s.op, ast.Add)
                        and isinstance(s.value, ast.Constant) and s.value.value == "_" for s in i.body)
                if ok_body:
                    out.append(i)
        return out

    def escaping_helper(call):
        """`self.h(x, ...)` where h returns its first parameter with '_' appended iff it is in the keyword list."""
        if not (isinstance(call, ast.Call) and isinstance(call.func, ast.Attribute) and unparse(call.func.value) == "self"):
            return None
        h = prog.find_method(ci, call.func.attr)
        if h is None:
            return None
        hf = h[1]
        params = [a.arg for a in hf.args.args if a.arg != "self"]
        if not params or not call.args:
            return None
        pv = params[0]
        rets = [r for r in walk_no_nested(hf) if isinstance(r, ast.Return)]
        if not rets:
            return None
        esc = escape_ifs(hf, pv)
        found = bool(esc) and all(not guards_of(i, hf, include_exits=False) for i in esc)
        for r in rets:
            v = r.value
            if isinstance(v, ast.Name) and v.id == pv:
                continue
            if isinstance(v, ast.IfExp) and is_kw_test(hf, v.test, pv) and is_escaped(v.body, pv) and unparse(v.orelse) == pv:
                found = True
                continue
            if is_escaped(v, pv):
                g = enclosing(r, ast.If)
                if g is not None and is_kw_test(hf, g.test, pv) and r in g.body:
                    found = True
                    continue
            return None
        if any(isinstance(s, (ast.Assign, ast.AugAssign)) and unparse(s.targets[0] if isinstance(s, ast.Assign) else s.target) == pv
               and enclosing(s, ast.If) not in esc for s in walk_no_nested(hf)):
            return None
        return hf if found else None

    for name, slot in (("_wrap_method", "py_method"), ("wrap_functions", "function_name")):
        fn = emitter(ctx, name)
        tpl0 = find_tpl(ctx, fn, {slot, "prefix"})
        if tpl0 is None or not isinstance(tpl0.slot(slot).expr, ast.Name):
            raise AnalysisError(f"{name}: the binding's name slot {{{slot}}} is not bound to a local")
        var = tpl0.slot(slot).expr.id
        esc = escape_ifs(fn, var)
        via_helper = [s for s in walk_no_nested(fn) if isinstance(s, ast.Assign) and unparse(s.targets[0]) == var
                      and escaping_helper(s.value) is not None]
        steps = esc + via_helper
        ok = len(steps) == 1
        uncond = ok and not guards_of(steps[0], fn, include_exits=False)
        # must come after the last other assignment to the name and before the template
        later = []
        if ok:
            later = [s for s in walk_no_nested(fn) if isinstance(s, ast.Assign) and unparse(s.targets[0]) == var
                     and s.lineno > steps[0].lineno and enclosing(s, ast.If) is not steps[0] and s is not steps[0]]
        rep.add(rid, f"{name}:Python-visible name passes the keyword escape on every path", ok and uncond and not later,
                ("no escape step found" if not ok else
                 f"escape under extra guards {guards_of(steps[0], fn, include_exits=False)}" if not uncond else
                 f"name re-assigned after the escape at line(s) {[s.lineno for s in later]}"),
                f"{ci.mod.rel}:{fn.lineno}")
        rep.add(rid, f"{name}:the escaped name is the one emitted", True, f"slot {slot} <- {var}",
                f"{ci.mod.rel}:{fn.lineno}", nontrivial=False)
    # the keyword list is configuration: nothing adds to it while declarations are wrapped (directly or through an alias)
    sites = []
    for k in prog.mro(ci):
        for mname, mfn in k.methods.items():
            if mname == "__init__":
                continue
            aliases = {"self.python_keywords"}
            for st in walk_no_nested(mfn):
                if isinstance(st, ast.Assign) and unparse(st.value) == "self.python_keywords":
                    aliases |= {unparse(t) for t in st.targets}
            for n_ in walk_no_nested(mfn):
                if isinstance(n_, ast.AugAssign) and unparse(n_.target) in aliases:
                    sites.append((mname, n_.lineno, f"`{unparse(n_.target)} {type(n_.op).__name__}=` extends the list in place"))
                elif isinstance(n_, ast.Call) and isinstance(n_.func, ast.Attribute) and unparse(n_.func.value) in aliases and \
                        n_.func.attr in ("append", "extend", "insert", "remove", "pop", "clear", "sort", "reverse"):
                    sites.append((mname, n_.lineno, f"`{unparse(n_.func)}()`"))
                elif isinstance(n_, ast.Subscript) and isinstance(n_.ctx, (ast.Store, ast.Del)) and unparse(n_.value) in aliases:
                    sites.append((mname, n_.lineno, "item store"))
                elif isinstance(n_, ast.Assign) and any(unparse(t) == "self.python_keywords" for t in n_.targets):
                    sites.append((mname, n_.lineno, "re-assignment"))
    rep.add(rid, "python_keywords:the list is never modified after construction (also not through a local alias)", not sites,
            "; ".join(f"{m}:{ln} {how}" for m, ln, how in sites[:3]) + ": names escaped for one declaration stay escaped for "
            "every later declaration / file wrapped by the same object", f"{ci.mod.rel}:{sites[0][1] if sites else kloc}")


def rule_default_text_verbatim(ctx, rep: Report, rid="B2", rels=("gtwrap/pybind_wrapper.py", "gtwrap/matlab_wrapper/wrapper.py")):
    """Default-value text is copied verbatim: wherever an emitter reads `<x>.default` the value is
    tested against None, bound to a slot or appended as it is - never passed through a string
    method or function."""
    prog = ctx.prog
    n = 0
    for rel in rels:
        mi = prog.module(rel)
        for x in ast.walk(mi.tree):
            if not (isinstance(x, ast.Attribute) and x.attr == "default" and isinstance(x.ctx, ast.Load)):
                continue
            p = parent(x)
            fn = enclosing(x, ast.FunctionDef)
            ok = True
            how = type(p).__name__
            if isinstance(p, ast.Attribute):                      # x.default.split / .strip / .replace ...
                ok = False
                how = f".{p.attr}"
            elif isinstance(p, ast.Call) and x in p.args:
                f = unparse(p.func)
                ok = f in ("isinstance", "str") or f.endswith(".format") or f.endswith(".append")
                how = f"argument of {f}"
            elif isinstance(p, ast.Subscript) and p.value is x and not (isinstance(p.slice, ast.Constant) and p.slice.value == 0):
                ok = False
                how = f"subscript {unparse(p)[:30]}"
            elif isinstance(p, ast.BinOp) and not isinstance(p.op, ast.Add):
                ok = False
            n += 1
            rep.add(rid, f"default text:{fn.name if fn else '?'}:{unparse(p)[:50]}", ok,
                    f"the default-value text is rewritten ({how}) before it is emitted; defaults are copied verbatim "
                    f"(white space inside string literals is significant)", f"{rel}:{x.lineno}", nontrivial=not ok)
        # format fields {arg.default} count as direct bindings
    if n < 6:
        raise AnalysisError(f"{rep.prop}/{rid}: {n} reads of .default in the emitters, >= 6 expected")


def rule_all_children_visited(ctx, rep: Report, rid="A3"):
    """Every recursive wrap_namespace call is made for the loop variable of a loop over the namespace's
    content, once per child namespace (a namespace may be opened several times)."""
    ci, prog = pw(ctx)
    fn = prog.method("PybindWrapper", "wrap_namespace")
    np_ = func_params(fn)[1]
    calls = [c for c in walk_no_nested(fn) if isinstance(c, ast.Call) and unparse(c.func) == "self.wrap_namespace"]
    if not calls:
        raise AnalysisError("wrap_namespace: no recursive call found")
    # child namespaces are visited whether this namespace lies above the top namespace, is it, or lies below it
    dp = _Depth(fn, _namespaces_local(fn))
    uncovered = [d_ for d_ in (-2, -1, 0, 1, 2) if not any(dp.possible(guards_of(c, fn, include_exits=True), d_) for c in calls)]
    rep.add(rid, "wrap_namespace:child namespaces are descended into at every depth relative to the top namespace", not uncovered,
            f"no recursive call is reachable when len(<path>) - len(self.top_module_namespaces) is {uncovered}: the namespaces nested there "
            f"(and, above the top namespace, the top namespace itself) are never wrapped", f"{ci.mod.rel}:{fn.lineno}")
    for k, c in enumerate(sorted(calls, key=lambda x: x.lineno)):
        loop = enclosing(c, ast.For)
        arg = c.args[0] if c.args else None
        ok = loop is not None and isinstance(arg, ast.Name) and isinstance(loop.target, ast.Name) and arg.id == loop.target.id \
            and unparse(loop.iter) == f"{np_}.content"
        gs = [g for g, pol in guards_of(c, fn, include_exits=False) if pol]
        inner = [g for g in gs if loop is not None and any(g == unparse(i.test) for i in ast.walk(loop) if isinstance(i, ast.If))]
        ok = ok and len(inner) == 1 and inner[0].replace(" ", "") == f"isinstance({arg.id if isinstance(arg, ast.Name) else '?'},parser.Namespace)"
        rep.add(rid, f"wrap_namespace:recursive call #{k}:made for every child namespace in content order", ok,
                f"`{unparse(c)[:60]}` under {gs}: child namespaces must be visited one by one from `{np_}.content` "
                f"(a dictionary or a single look-up keeps one block of a re-opened namespace and drops the others)",
                f"{ci.mod.rel}:{c.lineno}")
        # both halves of what the recursive call returns (code, includes) are added to this call's own results
        st = stmt_of(c)
        names = []
        if isinstance(st, ast.Assign) and isinstance(st.targets[0], (ast.Tuple, ast.List)):
            names = [x.id for x in st.targets[0].elts if isinstance(x, ast.Name)]
        rets = [r.value for r in walk_no_nested(fn) if isinstance(r, ast.Return) and isinstance(r.value, ast.Tuple)]
        returned = {x.id for r in rets for x in ast.walk(r) if isinstance(x, ast.Name)}
        blk = getattr(parent(st), "body", []) if st is not None else []
        after = blk[blk.index(st) + 1:] if st in blk else []
        lost = []
        for nm in names:
            used = any(isinstance(a, ast.AugAssign) and isinstance(a.target, ast.Name) and a.target.id in returned
                       and any(isinstance(x, ast.Name) and x.id == nm for x in ast.walk(a.value)) for a in after)
            if not used:
                lost.append(nm)
        if names:
            rep.add(rid, f"wrap_namespace:recursive call #{k}:code and includes of the child namespace are both kept", not lost,
                    f"{lost} returned by the recursive call is never added to what this call returns: the #include lines (or the bindings) "
                    f"of a nested namespace are dropped silently", f"{ci.mod.rel}:{c.lineno}")


def rule_boost_export_name(ctx, rep: Report, rid="W7"):
    """BOOST_CLASS_EXPORT is a macro: a comma inside its argument splits it into two arguments.  A serialisable class whose
    C++ name contains a comma (`Pair<int, double>`) must therefore be exported under a comma-free alias that a `typedef` in
    front of the macro introduces - same alias in both lines, both under the test for the comma."""
    ci, prog = pw(ctx)
    # the export block lives in wrap_file or in a helper it calls
    cands = [prog.method("PybindWrapper", "wrap_file")]
    for c in ast.walk(cands[0]):
        if isinstance(c, ast.Call) and isinstance(c.func, ast.Attribute) and unparse(c.func.value) == "self":
            h = prog.find_method(ci, c.func.attr)
            if h is not None and "BOOST_CLASS_EXPORT" in unparse(h[1]):
                cands.append(h[1])
    fn = next((f for f in reversed(cands) if any(isinstance(x, ast.Constant) and isinstance(x.value, str) and "BOOST_CLASS_EXPORT(" in x.value
                                                 for x in ast.walk(f))), None)
    if fn is None:
        raise AnalysisError("BOOST_CLASS_EXPORT emission not found")
    fo = Folder(prog, ci.mod, None, ci)
    exp = tdef = None
    for site in ast.walk(fn):
        if isinstance(site, ast.JoinedStr) or (isinstance(site, ast.Call) and isinstance(site.func, ast.Attribute) and site.func.attr == "format"):
            t = fo.fold(site)
            if t is None:
                continue
            lit = " ".join(t.literal("@").split())
            if lit.startswith("BOOST_CLASS_EXPORT(@)"):
                exp = (site, t)
            elif lit.startswith("typedef @ @;"):
                tdef = (site, t)
    loc = f"{ci.mod.rel}:{fn.lineno}"
    if exp is None:
        raise AnalysisError("BOOST_CLASS_EXPORT(<name>) template not found")
    name_expr = exp[1].slots()[0].expr
    nvar = name_expr.id if isinstance(name_expr, ast.Name) else None
    defs = [st for st in ast.walk(fn) if isinstance(st, ast.Assign) and len(st.targets) == 1 and isinstance(st.targets[0], ast.Name)
            and st.targets[0].id == nvar] if nvar else []
    san = []
    for st in defs:
        v = st.value
        if isinstance(v, ast.Call) and unparse(v.func) in ("re.sub",) and len(v.args) == 3 and isinstance(v.args[0], ast.Constant) \
                and isinstance(v.args[1], ast.Constant) and v.args[1].value == "":
            pat = v.args[0].value
            removes_comma = pat.startswith("[") and pat.endswith("]") and "," in pat
            g = [t.replace(" ", "") for t, pol in guards_of(st, fn, include_exits=False) if pol]
            san.append((st, removes_comma, g, unparse(v.args[2])))
    ok_san = len(san) == 1 and san[0][1] and any(g.startswith("','in") for g in san[0][2])
    rep.add(rid, "boost export:a class name containing a comma is exported under an alias with the commas removed", ok_san,
            f"alias definitions {[(unparse(s_[0])[:50], s_[1], s_[2]) for s_ in san]}: without the alias BOOST_CLASS_EXPORT(Pair<int, double>) is a "
            f"macro call with two arguments and does not compile", loc)
    ok_td = False
    if tdef is not None and san:
        s0, s1 = tdef[1].slots()[:2]
        g = [t.replace(" ", "") for t, pol in guards_of(stmt_of(tdef[0]), fn, include_exits=False) if pol]
        ok_td = unparse(s1.expr) == nvar and unparse(s0.expr) == san[0][3] and g == san[0][2]
    rep.add(rid, "boost export:the alias is introduced by `typedef <class> <alias>;` under the same test, in front of the macro", ok_td,
            "typedef line missing, under another condition, or naming something else than the alias / the class", loc)


def rule_one_binding_per_member(ctx, rep: Report, rid="A9"):
    """Inside each per-member loop of the class emitters (wrap_methods, wrap_operators, ...), the member's emitter is
    called exactly once without any condition; a further call for the same member - an additional, undeclared binding -
    is only accepted when the facts established on its path pin both the class (`cpp_class == '<literal>'`) and the
    member name (`<member>.name == '<literal>'`): the one special case the project documents (gtsam::Values::insert).
    A weaker guard (a disjunction, a test of the name alone) exposes an extra `insert_<arg>` on every class that
    happens to declare such a method."""
    from .rules_xml import _split_facts
    prog = ctx.prog
    ci = prog.cls("PybindWrapper")
    n = 0
    for mname, fn in sorted(ci.methods.items()):
        for loop in [x for x in walk_no_nested(fn) if isinstance(x, ast.For) and isinstance(x.target, ast.Name)]:
            tv = loop.target.id
            calls = [c for b in loop.body for c in ast.walk(b) if isinstance(c, ast.Call) and isinstance(c.func, ast.Attribute)
                     and unparse(c.func.value) == "self" and c.func.attr.startswith(("_wrap_", "wrap_"))
                     and any(isinstance(a, ast.Name) and a.id == tv for a in list(c.args) + [k.value for k in c.keywords])]
            if not calls:
                continue
            by_callee: Dict[str, List[ast.Call]] = {}
            for c in calls:
                by_callee.setdefault(c.func.attr, []).append(c)
            for callee, cs in sorted(by_callee.items()):
                n += 1
                if len(cs) == 1:
                    rep.add(rid, f"{mname}:{callee}:one call per member", True, "", f"{ci.mod.rel}:{cs[0].lineno}", nontrivial=False)
                    continue
                extra = []
                for c in cs:
                    gs = [(t, p_) for t, p_ in guards_of(c, fn, include_exits=False)]
                    # guards inside the loop only
                    facts = []
                    for t, p_ in gs:
                        facts += _split_facts(ast.parse(t, mode="eval").body, p_)
                    if not facts:
                        continue
                    pins_class = any(p_ and isinstance(t, ast.Compare) and len(t.ops) == 1 and isinstance(t.ops[0], ast.Eq)
                                     and isinstance(t.comparators[0], ast.Constant) and isinstance(t.comparators[0].value, str)
                                     and "class" in unparse(t.left) for t, p_ in facts)
                    pins_name = any(p_ and isinstance(t, ast.Compare) and len(t.ops) == 1 and isinstance(t.ops[0], ast.Eq)
                                    and isinstance(t.comparators[0], ast.Constant) and unparse(t.left) == f"{tv}.name" for t, p_ in facts)
                    extra.append((c, pins_class and pins_name))
                uncond = len(cs) - len(extra)
                rep.add(rid, f"{mname}:{callee}:one unconditional call per member, extras pinned to a named class and member",
                        uncond == 1 and all(ok for _, ok in extra),
                        f"{len(cs)} calls per member, {uncond} unconditional; the additional call(s) at line(s) {[c.lineno for c, ok in extra if not ok]} are "
                        f"not confined to one named class and one named member: other classes get a binding that no declaration asks for",
                        f"{ci.mod.rel}:{cs[0].lineno}")
    if n < 3:
        raise AnalysisError(f"{rep.prop}/{rid}: only {n} per-member emitter loops found in PybindWrapper")


def possible_values(fn, name: str, site: ast.AST) -> Optional[List[ast.AST]]:
    """Values `name` may hold where `site` executes, from simple assignments on the way (branches joined, loops taken
    zero or more times); None when the name is bound in a way this does not follow (unpacking, augmented assignment)."""
    target_stmt = stmt_of(site)

    class Stop(Exception):
        pass
    result: List[Optional[Set[int]]] = [None]
    nodes: Dict[int, ast.AST] = {}

    def run(stmts, cur: Optional[Set[int]]):
        for st in stmts:
            if st is target_stmt:
                result[0] = cur
                raise Stop()
            if isinstance(st, ast.Assign) and len(st.targets) == 1 and isinstance(st.targets[0], ast.Name) and st.targets[0].id == name:
                nodes[id(st.value)] = st.value
                cur = {id(st.value)}
            elif isinstance(st, (ast.Assign, ast.AugAssign, ast.AnnAssign)) and any(
                    isinstance(x, ast.Name) and x.id == name and isinstance(x.ctx, ast.Store) for x in ast.walk(st)):
                cur = None
            elif isinstance(st, ast.If):
                a = run(st.body, set(cur) if cur is not None else None)
                b = run(st.orelse, set(cur) if cur is not None else None)
                cur = None if a is None or b is None else a | b
            elif isinstance(st, (ast.For, ast.While)):
                a = run(st.body, set(cur) if cur is not None else None)
                cur = None if a is None or cur is None else a | cur
                cur2 = run(st.orelse, cur)
                cur = cur2
            elif isinstance(st, ast.With):
                cur = run(st.body, cur)
            elif isinstance(st, ast.Try):
                a = run(st.body, set(cur) if cur is not None else None)
                outs = [a]
                for h in st.handlers:
                    outs.append(run(h.body, set(cur) if cur is not None else None))
                cur = None if any(o is None for o in outs) else set().union(*outs)
                cur = run(st.finalbody, cur)
        return cur
    try:
        run(fn.body, set())
    except Stop:
        pass
    if result[0] is None:
        return None
    return [nodes[i] for i in result[0]]


def rule_value_slot_never_empty(ctx, rep: Report, rid="W9"):
    """A template that writes `<target> = <...><value>;` gets a value on every path: the local that fills the last slot
    in front of the `;` cannot still hold the empty string it may have been initialised with (a deleted or mis-nested
    assignment in one branch leaves `m.attr("x") = ;`, which does not compile)."""
    ci, prog = pw(ctx)
    n = 0
    for mname, fn in sorted(ci.methods.items()):
        fo = folder_for(ctx, fn)
        for call in [x for x in walk_no_nested(fn) if isinstance(x, ast.JoinedStr) or (isinstance(x, ast.Call) and isinstance(x.func, ast.Attribute) and x.func.attr == "format")]:
            try:
                t = fo.fold(call)
            except Exception:
                t = None
            if t is None:
                continue
            parts = t.parts
            for i, p_ in enumerate(parts):
                if isinstance(p_, str) or i + 1 >= len(parts) or not isinstance(parts[i + 1], str) or not parts[i + 1].startswith(";"):
                    continue
                # walk back over adjacent slots to the literal in front: it must end with `= `
                j = i
                while j > 0 and not isinstance(parts[j - 1], str):
                    j -= 1
                if j == 0 or not parts[j - 1].rstrip(" ").endswith("="):
                    continue
                e = p_.expr
                if not isinstance(e, ast.Name):
                    continue
                n += 1
                vals = possible_values(fn, e.id, call)
                if vals is None:
                    rep.add(rid, f"{mname}:{{{p_.key}}}:the assigned value is never the empty string", True, "not decided: bound by unpacking / augmented assignment",
                            f"{ci.mod.rel}:{call.lineno}", nontrivial=False)
                    continue
                empty = [v for v in vals if isinstance(v, ast.Constant) and v.value == ""]
                rep.add(rid, f"{mname}:{{{p_.key}}}:the assigned value is never the empty string", not empty and bool(vals),
                        f"`{e.id}` may still be '' (line {empty[0].lineno if empty else 0}) where the template is filled: the statement reads `... = ;`",
                        f"{ci.mod.rel}:{call.lineno}")
    if n < 1 and len(ci.methods) < 20:
        raise AnalysisError(f"{rep.prop}/{rid}: only {len(ci.methods)} methods of the pybind emitter were scanned")


def rule_dispatch_branches_contribute(ctx, rep: Report, rid="A10", wrapper="PybindWrapper", method="wrap_namespace"):
    """Every kind of element that the content loop(s) of wrap_namespace single out with an isinstance test contributes to
    what the function returns: the branch adds, to one of the returned accumulators, a value computed from the element
    (directly or through locals of the branch).  A branch whose `+=` was lost still runs the emitter and then throws the
    text away - the #include lines of a namespace, the bindings of a nested namespace, ... vanish without an error."""
    prog = ctx.prog
    ci = prog.cls(wrapper)
    fn = prog.method(wrapper, method)
    np_ = func_params(fn)[1]
    rets = [r.value for r in walk_no_nested(fn) if isinstance(r, ast.Return) and r.value is not None]
    returned = {x.id for r in rets for x in ast.walk(r) if isinstance(x, ast.Name)}
    n = 0
    for loop in [l for l in walk_no_nested(fn) if isinstance(l, ast.For) and isinstance(l.target, ast.Name) and unparse(l.iter) == f"{np_}.content"]:
        v = loop.target.id
        for st in loop.body:
            cur = st
            while isinstance(cur, ast.If):
                t = cur.test
                if isinstance(t, ast.Call) and unparse(t.func) == "isinstance" and unparse(t.args[0]) == v:
                    kind = "/".join(unparse(k_).split(".")[-1] for k_ in (t.args[1].elts if isinstance(t.args[1], ast.Tuple) else [t.args[1]]))
                    # names that depend on the element inside this branch
                    dep = {v}
                    changed = True
                    body_nodes = [x for b in cur.body for x in ast.walk(b)]
                    while changed:
                        changed = False
                        for x in body_nodes:
                            tg = None
                            if isinstance(x, ast.Assign):
                                tg = [y.id for t_ in x.targets for y in ast.walk(t_) if isinstance(y, ast.Name)]
                                val = x.value
                            elif isinstance(x, ast.AugAssign) and isinstance(x.target, ast.Name) and x.target.id not in returned:
                                tg, val = [x.target.id], x.value
                            if tg and any(isinstance(y, ast.Name) and y.id in dep for y in ast.walk(val)):
                                for nm in tg:
                                    if nm not in dep:
                                        dep.add(nm)
                                        changed = True
                    contrib = [x for x in body_nodes if isinstance(x, ast.AugAssign) and isinstance(x.target, ast.Name) and x.target.id in returned
                               and any(isinstance(y, ast.Name) and y.id in dep for y in ast.walk(x.value))]
                    # ... or files the element in a local collection from which a returned accumulator is fed after the loop
                    for x in body_nodes:
                        if isinstance(x, ast.Call) and isinstance(x.func, ast.Attribute) and x.func.attr in ("append", "extend", "add") \
                                and isinstance(x.func.value, ast.Name) and any(isinstance(y, ast.Name) and y.id in dep for a_ in x.args for y in ast.walk(a_)):
                            coll = x.func.value.id
                            contrib += [y for y in walk_no_nested(fn) if isinstance(y, ast.AugAssign) and isinstance(y.target, ast.Name) and y.target.id in returned
                                        and any(isinstance(z, ast.Name) and z.id == coll for z in ast.walk(y.value))]
                    n += 1
                    rep.add(rid, f"{method}:loop@{'above' if enclosing(loop, ast.If) is not None and loop in getattr(enclosing(loop, ast.If), 'body', []) else 'below'}"
                                 f":{kind}:the branch adds what it produced to the result", bool(contrib),
                            f"the branch for {kind} elements computes text but adds nothing that depends on the element to {sorted(returned)}: the element "
                            f"is parsed, accepted and silently left out of the generated module", f"{ci.mod.rel}:{cur.lineno}")
                cur = cur.orelse[0] if len(cur.orelse) == 1 and isinstance(cur.orelse[0], ast.If) else None
    if n < 6:
        raise AnalysisError(f"{rep.prop}/{rid}: only {n} dispatch branches found in {wrapper}.{method}")


def rule_templates_are_constant(ctx, rep: Report, rid="Q10", cls="PybindWrapper"):
    """The receiver of every `.format(...)` is template text written in the source - literals, concatenations of literals,
    locals bound to such, attributes holding the module template - never text that comes from the input (a docstring, a
    default value, a name).  Data spliced into the template is parsed by str.format as well: a `{` or `}` in a
    documentation text raises KeyError / IndexError or is replaced by another field's value."""
    prog = ctx.prog
    ci = prog.cls(cls)
    n = 0
    for mname, fn in sorted(ci.methods.items()):
        la = local_assignments(fn)
        params = set(func_params(fn))

        def constant_text(e, depth=4) -> Tuple[bool, str]:
            if isinstance(e, ast.Constant) and isinstance(e.value, str):
                return True, ""
            if isinstance(e, ast.JoinedStr):
                # the same two-stage template written as an f-string: every field has to be layout text the caller chose
                for v_ in e.values:
                    if isinstance(v_, ast.FormattedValue):
                        ok, why = constant_text(v_.value, depth - 1)
                        if not ok:
                            return False, f"f-string field {why or unparse(v_.value)[:40]}"
                return True, ""
            if isinstance(e, ast.BinOp) and isinstance(e.op, (ast.Add, ast.Mult)):
                if isinstance(e.op, ast.Mult):
                    return constant_text(e.left, depth)
                a, b = constant_text(e.left, depth), constant_text(e.right, depth)
                return (a[0] and b[0]), (a[1] or b[1])
            if isinstance(e, ast.Call) and isinstance(e.func, ast.Attribute) and e.func.attr in ("dedent", "indent", "strip", "lstrip", "rstrip", "join") and e.args:
                return constant_text(e.args[0], depth)
            if isinstance(e, ast.Call) and isinstance(e.func, ast.Attribute) and e.func.attr == "format":
                # a two-stage template: source text filled with layout strings the caller chose (prefix, indentation)
                parts = [e.func.value] + list(e.args) + [k.value for k in e.keywords]
                for p_ in parts:
                    ok, why = constant_text(p_, depth - 1)
                    if not ok:
                        return False, why
                return True, ""
            if isinstance(e, ast.Attribute):
                return True, ""                     # self.module_template, WrapperTemplate.x: template text by construction
            if isinstance(e, ast.Name):
                if e.id in params:
                    return True, ""                 # a template handed in by the caller is judged at the caller
                if depth <= 0:
                    return False, f"`{e.id}`"
                vs = [st.value for st in la.get(e.id, []) if isinstance(st, ast.Assign)]
                augs = [st.value for st in la.get(e.id, []) if isinstance(st, ast.AugAssign)]
                if not vs:
                    return False, f"`{e.id}` (not a local constant)"
                for v in vs + augs:
                    ok, why = constant_text(v, depth - 1)
                    if not ok:
                        return False, f"`{e.id}` <- {why or unparse(v)[:40]}"
                return True, ""
            if isinstance(e, ast.IfExp):
                a, b = constant_text(e.body, depth), constant_text(e.orelse, depth)
                return (a[0] and b[0]), (a[1] or b[1])
            return False, f"`{unparse(e)[:50]}`"
        for c in walk_no_nested(fn):
            if isinstance(c, ast.Call) and isinstance(c.func, ast.Attribute) and c.func.attr == "format" and not isinstance(c.func.value, ast.Name) \
                    or (isinstance(c, ast.Call) and isinstance(c.func, ast.Attribute) and c.func.attr == "format" and isinstance(c.func.value, ast.Name)):
                n += 1
                ok, why = constant_text(c.func.value)
                rep.add(rid, f"{cls}.{mname}:#{sum(1 for o in rep.obs if o.rule == rid and o.construct.startswith(cls + '.' + mname + ':')) + 1}:the format template is source text",
                        ok, f"the template contains {why}: text from the input becomes part of the template, so `{{` / `}}` in it are read as format fields",
                        f"{ci.mod.rel}:{c.lineno}", nontrivial=not ok)
    if n < 15:
        raise AnalysisError(f"{rep.prop}/{rid}: only {n} format calls found in {cls}")


def rule_operator_bindings_by_evaluation(ctx, rep: Report, rid="A11"):
    """wrap_operators emits one `.def(...)` per declared operator, in declaration order, in the form of its kind: decided by
    running the function (the analyser's own interpreter) on a sample list in which `-` and `+` occur both as unary and as
    binary operators - a collection keyed by the symbol, a `set`, or a skip of "repeated" symbols loses one of
    the two forms that share a symbol."""
    from .rules_matlab import SampleObj, _PathEval, _Raised, mini_exec
    ci, prog = pw(ctx)
    fn = prog.method("PybindWrapper", "wrap_operators")
    ps = func_params(fn)
    loc = f"{ci.mod.rel}:{fn.lineno}"

    def op(sym, unary=False):
        al = [] if unary else [SampleObj(__kind__="Argument", name="other", default=None)]
        args = SampleObj(__kind__="ArgumentList", args_list=al, list=lambda: list(al), names=lambda: [a["name"] for a in al], __len__=lambda: len(al))
        return SampleObj(operator=sym, is_unary=unary, name="operator" + sym, __kind__="Operator", args=args)
    sample = [op("-", True), op("+"), op("-"), op("*"), op("()"), op("+", True), op("[]"), op("==")]
    env = {ps[0]: SampleObj(), ps[1]: sample, ps[2]: "ns::K"}
    for p_, d_ in zip(ps[len(ps) - len(fn.args.defaults):], fn.args.defaults):
        if p_ not in env:
            try:
                env[p_] = ast.literal_eval(d_)
            except Exception:
                # a default spelled as an expression of constants (`'\n' + ' ' * 8`)
                env[p_] = "\n        "
    try:
        out = mini_exec(fn, env, budget=4000, methods={n_: f_ for n_, f_ in ci.methods.items()})
    except (_PathEval.Unknown, _Raised) as ex:
        rep.add(rid, "wrap_operators evaluated on sample operators", True, f"not evaluable ({ex}); the class block is decided as a whole elsewhere", loc, nontrivial=False)
        return
    if not isinstance(out, str):
        rep.add(rid, "wrap_operators evaluated on sample operators", True, "no text returned; the class block is decided as a whole elsewhere", loc, nontrivial=False)
        return
    pieces = [p for p in out.split(".def(")[1:]]
    want = []
    for o in sample:
        if o["operator"] == "[]":
            want.append("__getitem__")
        elif o["operator"] == "()":
            want.append("__call__")
        elif o["is_unary"]:
            want.append(f"{o['operator']}py::self)")
        else:
            want.append(f"py::self {o['operator']} py::self)")
    got = []
    for p in pieces:
        m = next((w for w in sorted(set(want), key=len, reverse=True) if (w in p and not (w.endswith("py::self)") and not w.startswith("py::self") and ("py::self " + w) in p))), None)
        got.append(m)
    rep.add(rid, "wrap_operators:one binding per declared operator, in declaration order, in the form of its kind", got == want,
            f"for the operators {[('unary ' if o['is_unary'] else '') + o['operator'] for o in sample]} the text holds {len(pieces)} binding(s) {got}; "
            f"declared are {len(want)}: an operator that shares its symbol with an earlier one (unary and binary `-` / `+`) is not bound", loc)


def rule_free_function_binding_is_name_independent(ctx, rep: Report, rid="B12"):
    """A free function is bound to a lambda that calls *that function* with its arguments, whatever it is called: the only thing
    its name decides is the trailing underscore of the Python name.  The special cases of members (serialize / pickle, print and
    __repr__, the _repr_*_ family) do not exist for free functions - `void serialize(const Archive&, bool)` in a namespace is an
    ordinary function.  In the function that builds the text for one free function (wrap_functions, or the helper it hands each
    function to) no test compares the function's name with a literal other than through the keyword table."""
    ci, prog = pw(ctx)
    wf = prog.method("PybindWrapper", "wrap_functions")
    fn = emitter(ctx, "wrap_functions")
    # the element: the loop variable of wrap_functions, or the parameter of the helper that receives it
    elems: Set[str] = set()
    if fn is wf:
        for l in walk_no_nested(wf):
            if isinstance(l, ast.For) and isinstance(l.target, ast.Name) and unparse(l.iter) in func_params(wf):
                elems.add(l.target.id)
    else:
        for c in ast.walk(wf):
            if isinstance(c, ast.Call) and isinstance(c.func, ast.Attribute) and c.func.attr == fn.name:
                b = bound_args(fn, c)
                loopvars = {l.target.id for l in ast.walk(wf) if isinstance(l, (ast.For, ast.comprehension)) and isinstance(l.target, ast.Name)}
                elems |= {p for p, v in b.items() if isinstance(v, ast.Name) and v.id in loopvars}
    if not elems:
        raise AnalysisError("wrap_functions: the per-function element (loop variable / helper parameter) was not found")
    hits = []
    n = 0
    # locals that carry the function's name (through any of their assignments)
    named: Set[str] = set()

    def mentions_name(x) -> bool:
        return any((isinstance(y, ast.Attribute) and y.attr == "name" and isinstance(y.value, ast.Name) and y.value.id in elems)
                   or (isinstance(y, ast.Name) and y.id in named) for y in ast.walk(x))
    changed = True
    while changed:
        changed = False
        for st in walk_no_nested(fn):
            if isinstance(st, ast.Assign) and len(st.targets) == 1 and isinstance(st.targets[0], ast.Name) and st.targets[0].id not in named \
                    and not isinstance(st.value, ast.Call) and mentions_name(st.value):
                named.add(st.targets[0].id)
                changed = True
    for c in walk_no_nested(fn):
        if not (isinstance(c, ast.Compare) and len(c.ops) == 1):
            continue
        sides = [c.left, c.comparators[0]]
        about_name = [mentions_name(x) and not any(isinstance(y, ast.Call) for y in ast.walk(x)) for x in sides]
        if not any(about_name):
            continue
        n += 1
        other = sides[1] if about_name[0] else sides[0]
        if "python_keywords" in unparse(other):
            continue
        lits = [x.value for x in ast.walk(other) if isinstance(x, ast.Constant) and isinstance(x.value, str)]
        tables = [x for x in ast.walk(other) if isinstance(x, ast.Attribute) and isinstance(x.value, ast.Name) and x.value.id == "self"]
        if lits or tables:
            hits.append(f"line {c.lineno}: `{unparse(c)[:50]}`")
    rep.add(rid, "wrap_functions:the binding of a free function depends on its name only through the keyword table", not hits,
            f"{hits[:4]}: a free function with one of these names gets the binding of a class member of that name (a `self` receiver, pickling, "
            f"`__repr__`, a renamed or dropped binding) instead of a call of the declared function", f"{ci.mod.rel}:{fn.lineno}")


def _sample_callable(kind: str, names: List[str], defaults: Optional[Dict[str, str]] = None, void: bool = False, name: str = "blend"):
    """A sample declaration (free function / method / static method) for running the emitters on."""
    from .rules_matlab import SampleObj
    types = ["double", "const ns::K&", "int", "size_t", "bool", "std::string"]
    args_list = [SampleObj(__kind__="Argument", name=n_, default=(defaults or {}).get(n_),
                           ctype=SampleObj(__kind__="Type", to_cpp=(lambda t_=types[i % len(types)]: t_), is_const=False, is_ref=False))
                 for i, n_ in enumerate(names)]
    args = SampleObj(__kind__="ArgumentList", args_list=args_list, names=lambda: [a["name"] for a in args_list],
                     to_cpp=lambda: [a["ctype"]["to_cpp"]() for a in args_list], list=lambda: list(args_list))
    return SampleObj(__kind__=kind, name=name, to_cpp=lambda: name, template="", is_const=False,
                     return_type=SampleObj(__kind__="ReturnType", is_void=lambda: void), args=args, parent=SampleObj(name="K"))


def _lambda_parts(text: str):
    """[(parameter names of the lambda, identifiers passed in the first call of its body)] for every `[](...){...}` in text."""
    out = []
    for m in re.finditer(r"\[\]\(([^)]*)\)\s*\{(.*?)\}", text, re.S):
        params = []
        for p in [x.strip() for x in m.group(1).split(",") if x.strip()]:
            ids = re.findall(r"[A-Za-z_]\w*", p)
            if ids:
                params.append(ids[-1])
        body = m.group(2)
        call = re.search(r"([A-Za-z_][\w:>\-\.]*)\s*\(([^()]*)\)\s*;", body)
        passed = [x.strip() for x in call.group(2).split(",") if x.strip()] if call else None
        out.append((params, passed, call.group(1) if call else None))
    return out


def rule_lambda_names_by_evaluation(ctx, rep: Report, rid="W12"):
    """The lambda a binding is made of declares its parameters and passes them on: every name in the call inside the body is a
    parameter of that lambda, in declaration order.  Decided by running the emitters for free functions, methods and static
    methods (the analyser's own interpreter, sample declarations whose parameter names include Python keywords that are
    plain identifiers in C++: `from`, `in`, `lambda`) and reading the emitted text - a renaming applied to the signature but
    not to the call (or the other way round) gives a translation unit that does not compile."""
    from .rules_matlab import SampleObj, _PathEval, _Raised, mini_exec
    ci, prog = pw(ctx)
    methods = dict(ci.methods)
    names = ["from", "x1", "lambda", "count"]
    kw = sorted(keyword.kwlist)
    me = SampleObj(python_keywords=list(kw), method_indent="\n        ", use_boost_serialization=False, xml_source="", _serializing_classes=[],
                   _ipython_special_methods=["svg", "png", "jpeg", "html", "javascript", "markdown", "latex"], ignore_classes=[])
    init = ci.methods.get("__init__")
    # plain constants the constructor stores are taken from there when they differ from the stand-ins above
    for st in (walk_no_nested(init) if init is not None else ()):
        if isinstance(st, ast.Assign) and len(st.targets) == 1 and isinstance(st.targets[0], ast.Attribute) and unparse(st.targets[0].value) == "self":
            try:
                me[st.targets[0].attr] = ast.literal_eval(st.value)
            except Exception:
                pass
    runs = [("wrap_functions", {"functions": [_sample_callable("GlobalFunction", names)], "namespace": "ns", "prefix": "\n    m_", "suffix": ";"}),
            ("_wrap_method", {"method": _sample_callable("Method", names), "cpp_class": "ns::K", "prefix": "\n        ", "suffix": "", "method_suffix": ""}),
            ("_wrap_method", {"method": _sample_callable("StaticMethod", names), "cpp_class": "ns::K", "prefix": "\n        ", "suffix": "", "method_suffix": ""})]
    evaluated = 0
    for mname, args in runs:
        fn = prog.method("PybindWrapper", mname)
        ps = func_params(fn)
        env = {"self": me}
        for p_, d_ in zip(ps[len(ps) - len(fn.args.defaults):], fn.args.defaults):
            try:
                env[p_] = ast.literal_eval(d_)
            except Exception:
                env[p_] = ""
        env.update({k: v for k, v in args.items() if k in ps})
        if any(p_ not in env for p_ in ps):
            continue
        kind = (args.get("method") or args["functions"][0])["__kind__"]
        try:
            text = mini_exec(fn, env, budget=6000, methods=methods)
        except (_PathEval.Unknown, _Raised, TypeError, KeyError):
            continue
        if not isinstance(text, str):
            continue
        parts = _lambda_parts(text)
        if not parts:
            continue
        evaluated += 1
        params, passed, callee_ = parts[0]
        own = [p for p in params if p != "self"]
        ok = passed is not None and passed == own and len(own) == len(names)
        rep.add(rid, f"{mname}:{kind}:the names passed to the call are the lambda's own parameters, in order", ok,
                f"for parameters named {names} the lambda declares {own} and its body calls {callee_}({', '.join(passed or [])}): a name that is not a "
                f"parameter of the lambda is not declared in that scope - the generated unit does not compile", f"{ci.mod.rel}:{fn.lineno}")
    # __contains__(key): the element looked for is the lambda's own parameter
    fn = prog.method("PybindWrapper", "_wrap_dunder")
    ps = func_params(fn)
    if fn is not None and ps[:5] == ["self", "method", "cpp_class", "prefix", "suffix"]:
        d_ = _sample_callable("DunderMethod", ["in"], name="contains")
        d_["args"]["args_list"] = d_["args"]["list"]()
        env = {"self": me, "method": d_, "cpp_class": "ns::K", "prefix": "\n        ", "suffix": ""}
        for p_, dv in zip(ps[len(ps) - len(fn.args.defaults):], fn.args.defaults):
            env.setdefault(p_, ast.literal_eval(dv))
        try:
            text = mini_exec(fn, env, budget=6000, methods=methods)
        except (_PathEval.Unknown, _Raised, TypeError, KeyError):
            text = None
        m_ = re.search(r"\[\]\(([^)]*)\)\s*\{(.*?)\}", text, re.S) if isinstance(text, str) else None
        if m_:
            evaluated += 1
            params = [re.findall(r"[A-Za-z_]\w*", p)[-1] for p in m_.group(1).split(",") if p.strip()]
            used = re.search(r"std::find\(\s*self->begin\(\)\s*,\s*self->end\(\)\s*,\s*([A-Za-z_]\w*)\s*\)", m_.group(2))
            ok = used is not None and used.group(1) in params and used.group(1) != "self"
            rep.add(rid, "_wrap_dunder:__contains__:the element looked for is the lambda's own parameter", ok,
                    f"for a parameter named `in` the lambda declares {params} and its body looks for `{used.group(1) if used else '?'}`: a name that is not a parameter "
                    f"of the lambda is not declared in that scope", f"{ci.mod.rel}:{fn.lineno}")
    rep.units["emitters_evaluated_on_samples"] = evaluated
    if evaluated == 0:
        rep.add(rid, "emitters evaluated on sample declarations", True, "none of the emitters could be run by the interpreter; W4 decides by structure", f"{ci.mod.rel}:0",
                nontrivial=False)


def rule_class_block_independent_of_earlier_classes(ctx, rep: Report, rid="P10"):
    """The block generated for one (instantiated) class is a function of that class alone.  The per-class emitter
    (wrap_instantiated_class and everything it calls on the wrapper) may keep books on the wrapper object - which classes were
    given serialization helpers, say - but what it *emits* must not depend on those books: a test on a wrapper attribute that
    the per-class code itself fills may only guard the book-keeping.  If it guards an assignment to a local, a return or a piece
    of text (uniquifying a variable name against the names used so far), the block of `Holder<B>` differs according to whether
    `Holder<A>` was wrapped before it - `template<T={A,B}>` no longer gives for B what `template<T={B}>` gives."""
    ci, prog = pw(ctx)
    start = prog.method("PybindWrapper", "wrap_instantiated_class")
    closure, todo = [], [start]
    while todo:
        f_ = todo.pop()
        if f_ in closure:
            continue
        closure.append(f_)
        for c in ast.walk(f_):
            if isinstance(c, ast.Call) and isinstance(c.func, ast.Attribute) and isinstance(c.func.value, ast.Name) and c.func.value.id == "self":
                h = prog.find_method(ci, c.func.attr)
                if h is not None and h[1] not in closure:
                    todo.append(h[1])
    if len(closure) < 5:
        raise AnalysisError(f"{rep.prop}/{rid}: only {len(closure)} functions reachable from wrap_instantiated_class")

    def self_attr(x) -> Optional[str]:
        return x.attr if isinstance(x, ast.Attribute) and isinstance(x.value, ast.Name) and x.value.id == "self" else None
    written: Dict[str, int] = {}
    for f_ in closure:
        for n in ast.walk(f_):
            if isinstance(n, ast.Call) and isinstance(n.func, ast.Attribute) and n.func.attr in ("append", "add", "extend", "insert", "update", "setdefault", "pop", "remove") \
                    and self_attr(n.func.value):
                written.setdefault(self_attr(n.func.value), n.lineno)
            if isinstance(n, (ast.Assign, ast.AugAssign)):
                for t in (n.targets if isinstance(n, ast.Assign) else [n.target]):
                    b = t.value if isinstance(t, ast.Subscript) else t
                    if self_attr(b):
                        written.setdefault(self_attr(b), n.lineno)
    rep.units["wrapper_attributes_written_per_class"] = len(written)

    def is_bookkeeping(st) -> bool:
        if isinstance(st, ast.Expr) and isinstance(st.value, ast.Call) and isinstance(st.value.func, ast.Attribute) and self_attr(st.value.func.value) in written:
            return True
        if isinstance(st, (ast.Assign, ast.AugAssign)):
            ts = st.targets if isinstance(st, ast.Assign) else [st.target]
            return all(self_attr(t.value if isinstance(t, ast.Subscript) else t) in written for t in ts)
        return isinstance(st, ast.Pass)
    n = 0
    for f_ in closure:
        guarded_reads = set()
        for g in ast.walk(f_):
            if isinstance(g, (ast.If, ast.While)):
                reads = [x for x in ast.walk(g.test) if self_attr(x) in written]
                if not reads:
                    continue
                for x in reads:
                    guarded_reads.add(id(x))
                n += 1
                other = [st for st in list(g.body) + list(g.orelse) if not is_bookkeeping(st)]
                rep.add(rid, f"{f_.name}:test on self.{self_attr(reads[0])} (filled class by class) guards book-keeping only", not other,
                        f"`{unparse(g.test)[:50]}` decides `{unparse(other[0])[:50] if other else ''}`: what is emitted for this class depends on the classes "
                        f"wrapped before it (self.{self_attr(reads[0])} is filled at line {written[self_attr(reads[0])]})", f"{ci.mod.rel}:{g.lineno}")
        for x in ast.walk(f_):
            if self_attr(x) in written and isinstance(x.ctx, ast.Load) and id(x) not in guarded_reads:
                p_ = parent(x)
                if isinstance(p_, ast.Attribute) and isinstance(parent(p_), ast.Call) and parent(p_).func is p_:
                    continue          # the mutation itself
                if isinstance(p_, ast.Subscript) and isinstance(p_.ctx, ast.Store):
                    continue
                n += 1
                rep.add(rid, f"{f_.name}:self.{self_attr(x)} (filled class by class) is not read into the emitted text", False,
                        f"`{unparse(stmt_of(x))[:60]}` reads what earlier classes of the run left behind", f"{ci.mod.rel}:{x.lineno}")
    rep.units["functions_in_the_per_class_emitter"] = len(closure)


def _sample_pybind_class():
    """A sample instantiated class `ns::K` (objects of the analyser) exercising every member kind of a class block."""
    from .rules_matlab import SampleObj

    def tn(name, ns=()):
        return SampleObj(__kind__="Typename", name=name, namespaces=list(ns), instantiations=[])

    def ty(name, ns=(), const="", ref="", ptr="", sp=""):
        return SampleObj(__kind__="Type", typename=tn(name, ns), is_const=const, is_ref=ref, is_ptr=ptr, is_shared_ptr=sp,
                         is_basic=name in ("double", "int", "size_t", "bool", "void"))

    def mk_args(specs):
        al = [SampleObj(__kind__="Argument", name=n, ctype=t, default=d, parent=None) for n, t, d in specs]
        return SampleObj(__kind__="ArgumentList", args_list=al, parent=None)

    def rt(t):
        return SampleObj(__kind__="ReturnType", type1=t, type2="")
    cls = SampleObj(__kind__="InstantiatedClass", name="K", parent_class="", template="", is_virtual=False, to_cpp=lambda: "ns::K",
                    namespaces=lambda: ["", "ns"], instantiations=[], enums=[], dunder_methods=[])

    def decl(kind, name, specs, ret=None):
        m = SampleObj(__kind__="Instantiated" + kind, __bases__=[kind], name=name, args=mk_args(specs), parent=cls, template="", is_const="", to_cpp=lambda: name)
        if ret is not None:
            m["return_type"] = rt(ret)
        return m
    D = ("x", ty("double"), None)
    cls["ctors"] = [decl("Constructor", "K", []), decl("Constructor", "K", [D, ("s", ty("double"), "1.0")])]
    cls["methods"] = [decl("Method", "at", [("i", ty("size_t"), None), ("from", ty("double"), None)], ty("double")),
                      decl("Method", "reset", [("s", ty("string", ("std",)), '"a, b"')], ty("void")), decl("Method", "at", [], ty("double")),
                      decl("Method", "lambda", [], ty("int"))]
    cls["static_methods"] = [decl("StaticMethod", "make", [D, ("other", ty("K", ("ns",), const="const", ref="&"), None)], ty("K", ("ns",))),
                             decl("StaticMethod", "count", [], ty("size_t"))]
    cls["properties"] = [SampleObj(__kind__="Variable", name="value", ctype=ty("double"), default=None),
                         SampleObj(__kind__="Variable", name="fixed", ctype=ty("K", ("ns",), const="const", sp="*"), default=None)]
    cls["operators"] = [SampleObj(__kind__="Operator", name="operator-", operator="-", is_unary=True, args=mk_args([]), return_type=rt(ty("K", ("ns",)))),
                        SampleObj(__kind__="Operator", name="operator-", operator="-", is_unary=False,
                                  args=mk_args([("o", ty("K", ("ns",), const="const", ref="&"), None)]), return_type=rt(ty("K", ("ns",)))),
                        SampleObj(__kind__="Operator", name="operator()", operator="()", is_unary=False, args=mk_args([D]), return_type=rt(ty("double")))]
    return cls


def class_block_by_evaluation(ctx, cls=None):
    """(text of the class block the pybind generator emits for the sample class, the sample class) - or None when
    wrap_instantiated_class cannot be run by the interpreter; cached for the standard sample."""
    custom = cls

    def mk():
        from .rules_matlab import SampleObj, _PathEval, _Raised, mini_exec, program_classes
        ci, prog = pw(ctx)
        fn = prog.method("PybindWrapper", "wrap_instantiated_class")
        ps = func_params(fn)
        if len(ps) != 2:
            return None
        classes = program_classes(prog, ["ArgumentList", "Argument", "PybindWrapper", "Typename", "Type", "ReturnType"])
        me = SampleObj(__kind__="PybindWrapper", python_keywords=sorted(keyword.kwlist), method_indent="\n        ", use_boost_serialization=False, xml_source="",
                       _serializing_classes=[], _ipython_special_methods=["svg", "png", "jpeg", "html", "javascript", "markdown", "latex"], ignore_classes=[],
                       _submodule_vars=[], module_name="mod", top_module_namespaces=[""])
        init = ci.methods.get("__init__")
        for st in (walk_no_nested(init) if init is not None else ()):
            if isinstance(st, ast.Assign) and len(st.targets) == 1 and isinstance(st.targets[0], ast.Attribute) and unparse(st.targets[0].value) == "self":
                try:
                    me[st.targets[0].attr] = ast.literal_eval(st.value)
                except Exception:
                    pass
        cls = custom if custom is not None else _sample_pybind_class()
        try:
            text = mini_exec(fn, {ps[0]: me, ps[1]: cls}, budget=300000, methods=dict(ci.methods), classes=classes)
        except (_PathEval.Unknown, _Raised, TypeError, KeyError, IndexError, AttributeError):
            return None
        return (text, cls) if isinstance(text, str) and "py::class_" in text else None
    return ctx._get("pybind_class_block", mk) if custom is None else mk()


def _special_cased_names(ctx):
    """(class spellings, member names) the pybind generator compares against literally: `cpp_class == 'gtsam::Values'`,
    `method.name == 'insert'`, `py_method in self._ipython_special_methods` aside - string constants on one side of `==` / `in`
    whose other side is the class spelling or a member's name."""
    ci, prog = pw(ctx)
    classes, members = set(), set()
    for fn in ci.methods.values():
        # only what is tested *together with* a class spelling - in the same condition or under it - is the special case of a class
        tests = []
        for i_ in ast.walk(fn):
            if isinstance(i_, ast.If):
                chain, p_ = [i_.test], parent(i_)
                while p_ is not None and p_ is not fn:
                    if isinstance(p_, ast.If):
                        chain.append(p_.test)
                    p_ = parent(p_)
                tests.append(chain)
        scoped = set()
        for chain in tests:
            cmps = [c for t in chain for c in ast.walk(t) if isinstance(c, ast.Compare)]
            if any("::" in x.value for c in cmps for x in ast.walk(c) if isinstance(x, ast.Constant) and isinstance(x.value, str)):
                scoped |= {id(c) for c in cmps}
        for c in ast.walk(fn):
            if not (isinstance(c, ast.Compare) and len(c.ops) == 1 and isinstance(c.ops[0], (ast.Eq, ast.In)) and id(c) in scoped):
                continue
            sides = [c.left, c.comparators[0]]
            lits = []
            for x in sides:
                if isinstance(x, ast.Constant) and isinstance(x.value, str):
                    lits.append(x.value)
                elif isinstance(x, (ast.Tuple, ast.List, ast.Set)):
                    lits += [e.value for e in x.elts if isinstance(e, ast.Constant) and isinstance(e.value, str)]
            other = [unparse(x) for x in sides if not isinstance(x, (ast.Constant, ast.Tuple, ast.List, ast.Set))]
            if not lits or not other:
                continue
            o = other[0]
            for lit in lits:
                if not re.fullmatch(r"[A-Za-z_][\w:]*", lit):
                    continue
                if "cpp_class" in o or o.endswith("to_cpp()") or "class" in o.lower() and "::" in lit:
                    classes.add(lit)
                elif o.endswith(".name") or o in ("py_method", "cpp_method", "method_name", "name"):
                    members.add(lit)
    return sorted(classes), sorted(members)


def rule_special_cased_members_keep_their_binding(ctx, rep: Report, rid="A13"):
    """The generator treats a few members by name (`insert` of `gtsam::Values` gets an additional, specially named binding;
    `print`, `serialize` ... get companions).  A special case may *add* bindings; it never takes the ordinary one away: every
    declared overload of such a member is still bound once under its declared name, whatever its parameter list looks like.
    Decided by running wrap_instantiated_class on a class spelled like each special-cased class, with overloads of each
    special-cased member name whose first parameter is a `size_t`, a class and a key (the names are read off the generator's
    own comparisons)."""
    from .rules_matlab import SampleObj
    ci, prog = pw(ctx)
    fn = prog.method("PybindWrapper", "wrap_instantiated_class")
    loc = f"{ci.mod.rel}:{fn.lineno}"
    cls_names, mem_names = _special_cased_names(ctx)
    rep.units["special_cased_classes"] = cls_names
    rep.units["special_cased_members"] = mem_names
    skip = {"serialize", "deserialize", "print", "__call__", "__getitem__"}      # companions with rules of their own (A9, W9 ...)
    mem_names = [m for m in mem_names if m not in skip and not m.startswith("__")]
    if not cls_names or not mem_names:
        rep.add(rid, "special-cased members:none found", True, "the generator compares no class spelling / member name literally", loc, nontrivial=False)
        return
    ran, probs = 0, []

    def tn(name, ns=()):
        return SampleObj(__kind__="Typename", name=name, namespaces=list(ns), instantiations=[])

    def ty(name, ns=(), const="", ref=""):
        return SampleObj(__kind__="Type", typename=tn(name, ns), is_const=const, is_ref=ref, is_ptr="", is_shared_ptr="", is_basic=name in ("double", "size_t"))

    def mk_args(specs):
        al = [SampleObj(__kind__="Argument", name=n, ctype=t, default=None, parent=None) for n, t in specs]
        return SampleObj(__kind__="ArgumentList", args_list=al, parent=None)
    for spelled in cls_names + ["other::Container"]:
        parts = spelled.split("::")
        cls = SampleObj(__kind__="InstantiatedClass", name=parts[-1], parent_class="", template="", is_virtual=False, to_cpp=lambda s_=spelled: s_,
                        namespaces=lambda p_=parts: [""] + p_[:-1], instantiations=[], enums=[], dunder_methods=[], ctors=[], properties=[], operators=[])

        def decl(kind, name, specs, cls=cls):
            return SampleObj(__kind__="Instantiated" + kind, __bases__=[kind], name=name, args=mk_args(specs), parent=cls, template="", is_const="",
                             to_cpp=lambda: name, return_type=SampleObj(__kind__="ReturnType", type1=ty("void"), type2=""))
        meths, stats = [], []
        for m in mem_names:
            meths += [decl("Method", m, [("j", ty("size_t")), ("vector", ty("Vector", ("gtsam",), const="const", ref="&"))]),
                      decl("Method", m, [("values", ty(parts[-1], parts[:-1], const="const", ref="&"))]),
                      decl("Method", m, [("key", ty("Key", ("gtsam",))), ("pose", ty("Pose3", ("gtsam",), const="const", ref="&"))])]
            stats += [decl("StaticMethod", m, [("key", ty("Key", ("gtsam",)))])]
        cls["methods"], cls["static_methods"] = meths, stats
        got = class_block_by_evaluation(ctx, cls)
        if got is None:
            continue
        ran += 1
        defs = _defs_of(got[0])
        for m in mem_names:
            n_def = len([d for k, d in defs if k == "def" and re.match(r'\.def\("' + re.escape(m) + r'"', d)])
            n_st = len([d for k, d in defs if k == "def_static" and re.match(r'\.def_static\("' + re.escape(m) + r'"', d)])
            if n_def != 3:
                probs.append(f"class {spelled}: {n_def} of the 3 declared overloads of `{m}` are bound under that name")
            if n_st != 1:
                probs.append(f"class {spelled}: the static `{m}` is bound {n_st} time(s)")
    rep.units["special_cased_class_blocks_evaluated"] = ran
    if ran == 0 and class_block_by_evaluation(ctx) is None:
        # the generator as a whole is beyond the interpreter on this tree (A12 says so as well): the structural rules A2 / A9 decide
        rep.add(rid, "special-cased members:class block evaluated", True, "not evaluable; the structural rules decide", loc, nontrivial=False)
        return
    if ran < len(cls_names) + 1:
        raise AnalysisError(f"{rep.prop}/{rid}: the class block could be evaluated for {ran} of {len(cls_names) + 1} sample classes only")
    rep.add(rid, "special-cased members:every declared overload keeps its ordinary binding", not probs,
            f"{probs[:3]}: the special case replaces the binding instead of adding to it - a declared method is missing from the Python class", loc)


def _defs_of(text: str):
    """The `.def...(` entries of a class block: [(kind, whole entry text)] split at top level."""
    out, i = [], 0
    for m in re.finditer(r"\.(def_static|def_readwrite|def_readonly|def_property\w*|def)\(", text):
        if m.start() < i:
            continue
        depth, j, q = 0, m.end() - 1, None
        while j < len(text):
            ch = text[j]
            if q:
                if ch == "\\":
                    j += 1
                elif ch == q:
                    q = None
            elif ch in "\"'":
                q = ch
            elif ch in "([{":
                depth += 1
            elif ch in ")]}":
                depth -= 1
                if depth == 0:
                    break
            j += 1
        out.append((m.group(1), text[m.start():j + 1]))
        i = j + 1
    return out


def rule_class_block_by_evaluation(ctx, rep: Report, rid="A12", part="members"):
    """The class block of the pybind module, produced by running wrap_instantiated_class (the analyser's own interpreter, program
    classes for the argument lists) on a sample class with two constructors, overloaded and keyword-named methods, a void
    method with a quoted default, static methods, a plain and a const shared-pointer property and unary / binary / call
    operators.  part='members' (C03): one entry per declared member, of the kind it was declared as, in order.
    part='forwarding' (C04): every lambda passes its own parameters, in order, to the entity of the same name, returns exactly
    when the declaration is not void, and the py::arg list carries the declared names and default texts.  part='wellformed'
    (C09): brackets, braces and quotes balance, and the block is one statement."""
    ci, prog = pw(ctx)
    got = class_block_by_evaluation(ctx)
    fn = prog.method("PybindWrapper", "wrap_instantiated_class")
    loc = f"{ci.mod.rel}:{fn.lineno}"
    if got is None:
        rep.add(rid, "class block evaluated on a sample class", True, "not evaluable; the structural rules decide", loc, nontrivial=False)
        return
    text, cls = got
    defs = _defs_of(text)
    probs = []
    if part == "members":
        inits = [d for k, d in defs if k == "def" and d.startswith(".def(py::init<")]
        if len(inits) != len(cls["ctors"]):
            probs.append(f"{len(inits)} constructor entries for {len(cls['ctors'])} declared constructors")
        want_m = [("lambda_" if m["name"] in keyword.kwlist else m["name"]) for m in cls["methods"]]
        got_m = [re.match(r'\.def\("([^"]+)"', d).group(1) for k, d in defs if k == "def" and re.match(r'\.def\("([^"]+)"', d)]
        got_m = [g for g in got_m if not g.startswith("__")]
        if got_m != want_m:
            probs.append(f"methods are bound as {got_m}, declared are {want_m}")
        got_s = [re.match(r'\.def_static\("([^"]+)"', d).group(1) for k, d in defs if k == "def_static" and re.match(r'\.def_static\("([^"]+)"', d)]
        if got_s != [m["name"] for m in cls["static_methods"]]:
            probs.append(f"static methods are bound as {got_s}, declared are {[m['name'] for m in cls['static_methods']]}")
        got_p = [(k, re.search(r'\("([^"]+)"', d).group(1)) for k, d in defs if k.startswith("def_read")]
        want_p = [("def_readonly" if p["ctype"]["is_const"] else "def_readwrite", p["name"]) for p in cls["properties"]]
        if got_p != want_p:
            probs.append(f"properties are bound as {got_p}, declared are {want_p}")
        ops = [d for k, d in defs if k == "def" and ("py::self" in d or "operator" in d)]
        if len(ops) != len(cls["operators"]):
            probs.append(f"{len(ops)} operator entries for {len(cls['operators'])} declared operators")
        rep.add(rid, "class block:one entry per declared member, of its own kind, in declaration order", not probs,
                f"{probs[:3]}: the Python class then lacks a declared member, has one twice, or offers it under another name / kind", loc)
    elif part == "forwarding":
        by_decl = [(m, "self->") for m in cls["methods"]] + [(m, "ns::K::") for m in cls["static_methods"]]
        lambdas = [(k, d) for k, d in defs if "[](" in d and '"__repr__"' not in d]
        if len(lambdas) != len(by_decl):
            probs.append(f"{len(lambdas)} lambda bindings for {len(by_decl)} methods and static methods")
        for (m, recv), (k, d) in zip(by_decl, lambdas):
            mm = re.search(r"\[\]\(([^)]*)\)\s*\{(.*)\}", d, re.S)
            if not mm:
                probs.append(f"{m['name']}: no lambda")
                continue
            params = [re.findall(r"[A-Za-z_]\w*", p)[-1] for p in mm.group(1).split(",") if p.strip()]
            own = [p for p in params if p != "self"]
            names = [a["name"] for a in m["args"]["args_list"]]
            call = re.search(re.escape(recv) + re.escape(m["name"]) + r"\(([^()]*)\)", mm.group(2))
            passed = [x.strip() for x in call.group(1).split(",") if x.strip()] if call else None
            # (a parameter whose name is a Python keyword may carry a trailing underscore - consistently)
            def same(a_, b_):
                return a_ == b_ or (b_ in keyword.kwlist and a_ == b_ + "_")
            if len(own) != len(names) or not all(same(a_, b_) for a_, b_ in zip(own, names)):
                probs.append(f"{m['name']}: the lambda declares {own}, the method takes {names}")
            elif passed != own:
                probs.append(f"{m['name']}: the body calls {recv}{m['name']}({', '.join(passed) if passed is not None else '?'}), the lambda's parameters in declared order are ({', '.join(own)})")
            void = m["return_type"]["type1"]["typename"]["name"] == "void"
            if void == bool(re.search(r"\breturn\b", mm.group(2))):
                probs.append(f"{m['name']}: {'returns a value although it is declared void' if void else 'drops the result of a non-void method'}")
            tail = d[mm.end():]
            pyargs = re.findall(r'py::arg\("([^"]+)"\)(\s*=\s*((?:"[^"]*"|[^,)])+))?', tail)
            want = [(a["name"], a["default"]) for a in m["args"]["args_list"]]
            gotp = [(n_, (dv.strip() if eq else None)) for n_, eq, dv in pyargs]
            if len(gotp) != len(want) or not all(same(g_[0], w_[0]) and g_[1] == w_[1] for g_, w_ in zip(gotp, want)):
                probs.append(f"{m['name']}: keyword arguments {gotp}, declared {want}")
        rep.add(rid, "class block:every lambda forwards its own parameters in order and hands the result back; py::arg carries names and defaults", not probs,
                f"{probs[:3]}", loc)
    else:
        stack, q, bad = [], None, None
        pairs = {")": "(", "]": "[", "}": "{"}
        i = 0
        while i < len(text):
            ch = text[i]
            if q:
                if ch == "\\":
                    i += 1
                elif ch == q:
                    q = None
            elif ch == '"':
                q = ch
            elif ch in "([{":
                stack.append(ch)
            elif ch in ")]}":
                if not stack or stack.pop() != pairs[ch]:
                    bad = f"unmatched `{ch}` at offset {i}"
                    break
            i += 1
        if bad is None and (stack or q):
            bad = f"unclosed {stack[-1] if stack else 'string literal'}"
        if bad:
            probs.append(bad)
        body = text.strip()
        if not body.endswith(";") or body.count(";") - sum(d.count(";") for _, d in defs) != 1:
            probs.append("the block is not one statement ending in `;`")
        rep.add(rid, "class block:brackets, braces and quotes balance and the block is one statement", not probs,
                f"{probs[:2]}: the generated translation unit does not compile", loc)


def rule_class_handling_consults_ignore_list(ctx, rep: Report, rid="X10"):
    """Wherever the pybind generator treats an element of a namespace as a class (`isinstance(x, InstantiatedClass)`) and makes
    something of it - text, an entry of a list that is printed later (the Boost export block) - the ignore list stands in
    between: a test in that block, or the element is only handed to a method of the wrapper that tests it before anything
    else (`wrap_instantiated_class`).  A second walk over the classes that never asks leaves an artefact of the ignored class
    in the module."""
    from .rules_matlab import _ignore_tests, _prepare_ignore_helpers
    ci, prog = pw(ctx)
    _prepare_ignore_helpers(prog)

    def tests_first(h) -> bool:
        """The method tests the ignore list (returning / skipping) before it produces anything."""
        its = _ignore_tests(h)
        if not its:
            return False
        first_emit = min((x.lineno for x in ast.walk(h) if isinstance(x, ast.AugAssign) or (isinstance(x, ast.Call) and isinstance(x.func, ast.Attribute)
                                                                                            and x.func.attr in ("append", "format"))), default=10 ** 9)
        return min(t.lineno for t in its) <= first_emit
    n = 0
    for mname, fn in sorted(ci.methods.items()):
        for i in ast.walk(fn):
            if not isinstance(i, ast.If):
                continue
            cand = [c for c in ast.walk(i.test) if isinstance(c, ast.Call) and unparse(c.func) == "isinstance" and len(c.args) == 2
                    and "InstantiatedClass" in unparse(c.args[1]) and isinstance(c.args[0], ast.Name)]
            if not cand:
                continue
            v = cand[0].args[0].id
            n += 1
            body_tests = [t for st in i.body for t in _ignore_tests(st)] + _ignore_tests(i.test)
            uses = [u for st in i.body for u in ast.walk(st) if isinstance(u, ast.Name) and u.id == v and isinstance(u.ctx, ast.Load)]
            unguarded = []
            for u in uses:
                p_ = parent(u)
                if isinstance(p_, ast.Call) and isinstance(p_.func, ast.Attribute) and unparse(p_.func.value) == "self" and (u in p_.args or any(k.value is u for k in p_.keywords)):
                    h = prog.find_method(ci, p_.func.attr)
                    if h is not None and tests_first(h[1]):
                        continue
                # `block = self.wrap_instantiated_class(x)` ... `if block:` - what stands under the result of the filtering method is filtered
                under = False
                for t_, pol_ in guards_of(u, fn, include_exits=False):
                    e_ = ast.parse(t_, mode="eval").body
                    if pol_ and isinstance(e_, ast.Name):
                        d_ = value_def(fn, e_.id)
                        if isinstance(d_, ast.Call) and isinstance(d_.func, ast.Attribute) and unparse(d_.func.value) == "self" \
                                and any(isinstance(a_, ast.Name) and a_.id == v for a_ in list(d_.args) + [k.value for k in d_.keywords]):
                            h2 = prog.find_method(ci, d_.func.attr)
                            under = under or (h2 is not None and tests_first(h2[1]))
                if under:
                    continue
                unguarded.append(f"line {u.lineno}: `{unparse(stmt_of(u))[:50]}`")
            ok = bool(body_tests) or not unguarded
            rep.add(rid, f"{mname}:class elements pass the ignore list before anything is made of them", ok,
                    f"{unguarded[:2]}: for an ignored class this still produces an entry (a BOOST_CLASS_EXPORT line, a typedef), while deleting its declaration "
                    f"would not", f"{ci.mod.rel}:{i.lineno}")
    if n < 1:
        raise AnalysisError(f"{rep.prop}/{rid}: no handling of InstantiatedClass elements found in PybindWrapper")
