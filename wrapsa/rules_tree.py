"""Rules on the grammar -> node-object boundary (C01 G1-G7, F1-F3; reused by C07 V2)."""
from __future__ import annotations

import ast
import re
from typing import Dict, List, Optional, Set, Tuple

from .actions import ActionAnalyzer, CHOICE, REPETITIONS, Reads, info_points
from .core import AnalysisError, Report
from .emit import Folder
from .grammar import GNode, Grammar, Scope, first_terms, is_constant, VARIABLE_TERMINALS
from .prog import (Program, bind_call, order_free_use, dotted, enclosing, func_params, guards_of, parent, required_params, single_def, unparse,
                   walk_no_nested)
from .rules_grammar import ctx_label, gloc, parse_root

# (label of a node above the information point) -> reason; one named symbol each
G1_EXEMPT_UNDER = {
    "ENUM": "`enum`, `enum class` and `enum struct` are not distinguished by any consumer of the "
            "dialect (all three are bound as the same C++ enum)",
    "ReturnType.optional_std": "the optional `std::` before `pair` is dropped on purpose: the pair is "
                               "always re-spelled `std::pair<..>` by ReturnType.to_cpp",
}


def _covered(n: GNode, anc: Tuple[GNode, ...], reads: Reads) -> Tuple[bool, str]:
    if reads.whole:
        return True, "whole token list consumed"
    path = anc + (n,)
    rep_idx = None
    for i, a in enumerate(path[:-1]):
        if a.kind in REPETITIONS:
            rep_idx = i
            break
    for i, m in enumerate(path):
        if m.name and m.name in reads.names:
            if rep_idx is not None and i > rep_idx and not m.attrs.get("list_all"):
                continue   # a name inside a repetition keeps only the last match
            return True, f'read through results name "{m.name}"'
    names = [m.name for m in path if m.name]
    if names:
        return False, f"results name(s) {names} on the path are not read by the action" + \
            (" (or sit inside a repetition, where only the last match survives)" if rep_idx is not None else "")
    return False, "no results name on the path and the action does not consume the whole token list"


def _exempt(n: GNode, anc) -> Optional[str]:
    for a in anc + (n,):
        if a.label in G1_EXEMPT_UNDER:
            return a.label
    return None


def rule_capture_complete(ctx, rep: Report, rid="G1", min_actions=26):
    g: Grammar = ctx.grammar
    aa: ActionAnalyzer = ctx.actions
    root, _ = parse_root(ctx)
    acts = aa.distinct_actions(root)
    rep.units["parse_actions"] = len(acts)
    if len(acts) < min_actions:
        raise AnalysisError(f"{rep.prop}/{rid}: {len(acts)} parse actions reachable from the root, "
                            f"{min_actions} confirmed on the pinned tree")
    npoints = 0
    for a in acts:
        lab = aa.label(a)
        reads = aa.reads_of_lambda(a.action)
        if not reads.whole and set(reads.positional) == {"0"} and \
                (a.kind in VARIABLE_TERMINALS or a.kind in ("OriginalTextFor", "Combine", "Literal", "Keyword")):
            reads.whole = True      # a single-token element: t[0] is everything it matched
        sc = Scope(g, a)
        pts = list(info_points(sc))
        if a.kind in VARIABLE_TERMINALS:
            pts.append((a, (), "variable text"))
        seen = set()
        for n, anc, why in pts:
            key = f"{lab}:{ctx_label(g, n) if not n.label else n.label}:{n.describe()}"
            if key in seen:
                continue
            seen.add(key)
            npoints += 1
            ex = _exempt(n, anc)
            if ex:
                rep.add(rid, key, True, f"exempt ({ex}): {G1_EXEMPT_UNDER[ex]}", gloc(n), nontrivial=False)
                continue
            ok, how = _covered(n, anc, reads)
            rep.add(rid, key, ok,
                    (f"{why}: {how}" if ok else
                     f"information point ({why}) is matched by the grammar but never reaches the node "
                     f"object: {how}"), gloc(n))
        if reads.positional and not reads.whole:
            rep.add(rid, f"{lab}:positional consumer covers every position", False,
                    f"token list read by position {reads.positional} does not partition the list",
                    gloc(a))
        for a2 in a.extra_actions:
            rep.add(rid, f"{lab}:single parse action", False,
                    "additional parse actions/conditions are not modelled", gloc(a))
    rep.units["information_points"] = npoints
    # top level: parseString(...)[0] must be the only token the root produces
    tops = [c for c in _flatten_and(root) if c.kind not in ("StringEnd", "Suppress")]
    rep.add(rid, "Module.rule:single token-producing element at top level",
            len(tops) == 1 and tops[0].action is not None,
            "Module.parseString returns element [0] of the result: anything else matched at top "
            "level would be dropped", gloc(root))


def _flatten_and(n: GNode) -> List[GNode]:
    if n.kind == "And" and n.action is None and not n.name:
        out = []
        for c in n.children:
            out += _flatten_and(c)
        return out
    return [n]


def _flatten_alt(n: GNode, kinds=("Or",)) -> List[GNode]:
    if n.kind in kinds and n.action is None and not n.name:
        out = []
        for c in n.children:
            out += _flatten_alt(c, kinds)
        return out
    return [n]


def rule_no_phantom_read(ctx, rep: Report, rid="G2"):
    g, aa = ctx.grammar, ctx.actions
    root, _ = parse_root(ctx)
    seen = set()
    for a in aa.action_nodes(root):
        lab = aa.label(a)
        reads = aa.reads_of_lambda(a.action)
        defined = Scope(g, a).defined_names()
        for nm in sorted(reads.names):
            key = f"{lab}:{nm}:{'own' if a.name == nm else 'inner'}"
            ok = nm in defined
            if (key, ok) in seen:
                continue
            seen.add((key, ok))
            rep.add(rid, f"{lab}:reads {nm!r}", ok,
                    "defined in the action's capture scope" if ok else
                    f'the action reads results name "{nm}" which no element of its capture scope '
                    f"defines; the repo patches ParseResults.__getattr__ to return '' for unknown "
                    f"names, so the field is silently empty", gloc(a))


def _name_counts(g: Grammar, n: GNode, root: GNode, seen=None) -> Dict[str, int]:
    seen = seen or set()
    if n.uid in seen:
        return {}
    seen = seen | {n.uid}
    own = {n.name: 1} if n.name else {}
    if (n is not root and n.action is not None) or n.kind in ("Suppress", "OriginalTextFor", "Combine"):
        return own
    kids = [_name_counts(g, c, root, seen) for c in n.children]
    agg: Dict[str, int] = {}
    if n.kind in ("And", "Each"):
        for k in kids:
            for nm, c in k.items():
                agg[nm] = agg.get(nm, 0) + c
    else:
        for k in kids:
            for nm, c in k.items():
                agg[nm] = max(agg.get(nm, 0), c)
    for nm, c in own.items():
        agg[nm] = max(agg.get(nm, 0), c)
    return agg


def rule_no_clash(ctx, rep: Report, rid="G3"):
    g, aa = ctx.grammar, ctx.actions
    root, _ = parse_root(ctx)
    for a in aa.distinct_actions(root):
        lab = aa.label(a)
        reads = aa.reads_of_lambda(a.action)
        counts = _name_counts(g, a, a)
        dup = sorted(nm for nm, c in counts.items() if c > 1 and (nm in reads.names))
        rep.add(rid, f"{lab}:results names unique on co-occurring paths", not dup,
                f"results name(s) {dup} are defined by two elements that can both match in one "
                f"parse of this rule: the later one overwrites the earlier (re-attribution)", gloc(a))


# ------------------------------------------------------------------------------------------
def _ann_classes(prog: Program, ann: Optional[ast.AST], mi) -> Tuple[Set[str], bool]:
    """(class quals named by the annotation, decisive?) - decisive is False when the annotation
    admits arbitrary values (no annotation, bare Any, str, pyparsing classes...)."""
    if ann is None:
        return set(), False
    names: Set[str] = set()
    other = False
    anyflag = False
    for n in ast.walk(ann):
        if isinstance(n, ast.Constant) and isinstance(n.value, str):
            ci = prog.resolve_class(n, mi)
            if ci is not None:
                names.add(ci.qual)
            else:
                other = True
        elif isinstance(n, (ast.Name, ast.Attribute)):
            if isinstance(parent(n), ast.Attribute):
                continue
            txt = unparse(n)
            if txt in ("Union", "List", "Optional", "Sequence", "Iterable", "None", "typing.Union",
                       "typing.List", "Tuple"):
                continue
            if txt == "Any":
                anyflag = True
                continue
            ci = prog.resolve_class(n, mi)
            if ci is not None:
                names.add(ci.qual)
            else:
                other = True
    return names, bool(names) and not other


def rule_binding(ctx, rep: Report, rid="F1", min_actions=26):
    g, aa, prog = ctx.grammar, ctx.actions, ctx.prog
    root, _ = parse_root(ctx)
    acts = aa.distinct_actions(root)
    nbind = 0
    for a in acts:
        lab = aa.label(a)
        calls = aa.constructor_calls(a.action)
        if not calls:
            # an action that builds no node returns (possibly rewritten) token text.  On an element
            # whose text is information (variable text / verbatim zone) only the identity is faithful.
            body = a.action.node.body if isinstance(a.action.node, ast.Lambda) else None
            tok = a.action.node.args.args[-1].arg if isinstance(a.action.node, ast.Lambda) and a.action.node.args.args else None
            ident = body is not None and _is_identity_text(body, tok)
            carries = any(n.kind in VARIABLE_TERMINALS or n.kind in ("OriginalTextFor", "Combine")
                          for n, _ in Scope(g, a).members)
            rep.add(rid, f"{lab}:text-returning action leaves matched text unchanged", ident or not carries,
                    f"parse action {unparse(a.action.node)[:70]} rewrites the text matched by "
                    f"{ctx_label(g, a)}: what the tree holds is no longer what the source says", gloc(a))
            continue
        sc = Scope(g, a)
        defined = sc.defined_names()
        for call, ci, init, mod, tokvar in calls:
            nbind += 1
            where = f"{mod.rel}:{call.lineno}"
            try:
                b = bind_call(init, call, drop_self=True)
            except AnalysisError as e:
                rep.add(rid, f"{lab}->{ci.qual}:binds", False, str(e), where)
                continue
            bad = [k for k in b if k.startswith("<")]
            req = [p for p in required_params(init, True) if p not in b]
            rep.add(rid, f"{lab}->{ci.qual}:arity and keywords", not bad and not req,
                    f"call {unparse(call)[:90]} does not bind to {ci.qual}.__init__"
                    f"({', '.join(func_params(init)[1:])}): extra/unknown {bad}, missing {req}", where)
            # every bound parameter is consumed by the constructor
            params = func_params(init)[1:]
            loads = {n.id for n in ast.walk(init) if isinstance(n, ast.Name) and isinstance(n.ctx, ast.Load)}
            for p in params:
                if p in b:
                    rep.add(rid, f"{ci.qual}.__init__:{p} consumed", p in loads,
                            f"parameter {p!r} is passed by the parse action but never used by the "
                            f"constructor: what the grammar matched for it is dropped",
                            f"{ci.mod.rel}:{init.lineno}")
            # no two parameters stored directly into one attribute on the same path
            stores: Dict[str, List[Tuple[str, ast.AST]]] = {}
            for st in init.body:
                if isinstance(st, ast.Assign) and len(st.targets) == 1:
                    t = st.targets[0]
                    if isinstance(t, ast.Attribute) and isinstance(t.value, ast.Name) and t.value.id == "self":
                        v = st.value
                        if isinstance(v, ast.Subscript):
                            v = v.value
                        if isinstance(v, ast.Name) and v.id in params:
                            stores.setdefault(t.attr, []).append((v.id, st))
            for attr, lst in stores.items():
                ps = sorted({p for p, _ in lst})
                rep.add(rid, f"{ci.qual}.__init__:self.{attr} single source", len(ps) == 1,
                        f"attribute {attr} is overwritten from different parameters {ps}",
                        f"{ci.mod.rel}:{init.lineno}")
            # type agreement: grammar value type vs the constructor's own annotation
            anns = {x.arg: x.annotation for x in init.args.args + init.args.kwonlyargs}
            for p, argx in b.items():
                if p.startswith("<"):
                    continue
                gtypes = _arg_types(ctx, argx, tokvar, defined, a)
                acls, decisive = _ann_classes(prog, anns.get(p), ci.mod)
                if not gtypes or not decisive or "?" in gtypes:
                    continue
                gcls = {t for t in gtypes if t != "str"}
                ok = True
                if gcls:
                    ok = any(_compatible(prog, x, y) for x in gcls for y in acls)
                elif "str" in gtypes:
                    ok = False
                rep.add(rid, f"{lab}->{ci.qual}({p}):type", ok,
                        f"argument {unparse(argx)[:60]} carries {sorted(gtypes)} (from the grammar) but "
                        f"parameter {p!r} is annotated {unparse(anns[p])} - arguments mis-ordered?", where)
    rep.units["constructor_bindings"] = nbind
    if nbind < min_actions:
        raise AnalysisError(f"{rep.prop}/{rid}: {nbind} constructor bindings resolved, {min_actions} expected")


def _is_identity_text(body: ast.AST, tok: Optional[str]) -> bool:
    e = body
    while isinstance(e, ast.Call) and isinstance(e.func, ast.Attribute) and e.func.attr in ("strip", "lstrip", "rstrip") \
            and not e.args:
        e = e.func.value
    if isinstance(e, ast.Call) and isinstance(e.func, ast.Name) and e.func.id == "str" and len(e.args) == 1:
        e = e.args[0]
    if isinstance(e, ast.Subscript) and isinstance(e.value, ast.Name) and e.value.id == tok and \
            isinstance(e.slice, ast.Constant) and e.slice.value == 0:
        return True
    return isinstance(e, ast.Name) and e.id == tok


def _compatible(prog: Program, gq: str, aq: str) -> bool:
    if gq == aq:
        return True
    try:
        return prog.is_subclass(prog.cls(gq), prog.cls(aq))
    except AnalysisError:
        return False


def _arg_types(ctx, argx: ast.AST, tokvar: Optional[str], defined, action_node: GNode) -> Set[str]:
    """Types (class quals / 'str') an action argument can carry, from the grammar."""
    aa = ctx.actions
    e = argx
    # strip [0], .asList()
    while True:
        if isinstance(e, ast.Subscript):
            e = e.value
        elif isinstance(e, ast.Call) and isinstance(e.func, ast.Attribute) and e.func.attr in ("asList", "as_list"):
            e = e.func.value
        else:
            break
    if isinstance(e, ast.Attribute) and isinstance(e.value, ast.Name) and e.value.id == tokvar:
        nodes = defined.get(e.attr, [])
        out: Set[str] = set()
        for n in nodes:
            out |= aa.value_types(n)
        return out
    if isinstance(e, ast.Attribute) and isinstance(e.value, ast.Attribute) and \
            isinstance(e.value.value, ast.Name) and e.value.value.id == tokvar:
        # t.members.ctors : element type of a list attribute of the node under `members`
        nodes = defined.get(e.value.attr, [])
        holder: Set[str] = set()
        for n in nodes:
            holder |= aa.value_types(n)
        out = set()
        for h in holder:
            if h in ("str", "?"):
                return {"?"}
            mp = member_list_map(ctx, h)
            if e.attr in mp:
                out |= mp[e.attr]
            else:
                return {"?"}
        return out
    return set()


def member_dispatch(ctx, holder_qual: str) -> List[Tuple[object, str, int]]:
    """How a holder class's __init__ sorts members by type into its lists, in test order:
    [(element class, list attribute, line)].  Two shapes are understood: an if/elif chain of
    `isinstance(m, K): self.x.append(m)` and a table of (K, self.x) pairs walked by a loop that appends to the
    first entry whose type matches (`for t, d in table: if isinstance(m, t): d.append(m); break`)."""
    prog = ctx.prog
    ci = prog.cls(holder_qual)
    init = prog.find_method(ci, "__init__")
    out: List[Tuple[object, str, int]] = []
    if init is None:
        return out
    fn = init[1]
    for n in ast.walk(fn):
        if isinstance(n, ast.If) and isinstance(n.test, ast.Call) and unparse(n.test.func) == "isinstance" \
                and len(n.test.args) == 2:
            k = prog.resolve_class(n.test.args[1], ci.mod)
            if k is None:
                continue
            for st in n.body:
                for c in ast.walk(st):
                    if isinstance(c, ast.Call) and isinstance(c.func, ast.Attribute) and c.func.attr == "append" \
                            and isinstance(c.func.value, ast.Attribute) and isinstance(c.func.value.value, ast.Name) \
                            and c.func.value.value.id == "self":
                        out.append((k, c.func.value.attr, n.lineno))
    if out:
        return sorted(out, key=lambda x: x[2])
    # table-driven form
    for loop in ast.walk(fn):
        if not (isinstance(loop, ast.For) and isinstance(loop.target, ast.Tuple) and len(loop.target.elts) == 2
                and all(isinstance(e, ast.Name) for e in loop.target.elts)):
            continue
        tv, dv = loop.target.elts[0].id, loop.target.elts[1].id
        tests = [i for i in loop.body if isinstance(i, ast.If) and isinstance(i.test, ast.Call) and unparse(i.test.func) == "isinstance"
                 and len(i.test.args) == 2 and unparse(i.test.args[1]) == tv]
        if len(tests) != 1:
            continue
        body = tests[0].body
        app = [c for st in body for c in ast.walk(st) if isinstance(c, ast.Call) and unparse(c.func) == f"{dv}.append"]
        first_only = any(isinstance(st, ast.Break) for st in body)
        if not app or not first_only:
            continue
        it = loop.iter
        if isinstance(it, ast.Call) and isinstance(it.func, ast.Attribute) and it.func.attr == "items":
            it = it.func.value
        if isinstance(it, ast.Name):
            vals = [st.value for st in walk_no_nested(fn) if isinstance(st, ast.Assign) and len(st.targets) == 1
                    and isinstance(st.targets[0], ast.Name) and st.targets[0].id == it.id]
            if len(vals) != 1:
                continue
            it = vals[0]
        pairs = []
        if isinstance(it, (ast.Tuple, ast.List)):
            pairs = [(e.elts[0], e.elts[1]) for e in it.elts if isinstance(e, ast.Tuple) and len(e.elts) == 2]
        elif isinstance(it, ast.Dict):
            pairs = list(zip(it.keys, it.values))
        for kx, dx in pairs:
            k = prog.resolve_class(kx, ci.mod)
            if k is not None and isinstance(dx, ast.Attribute) and isinstance(dx.value, ast.Name) and dx.value.id == "self":
                out.append((k, dx.attr, kx.lineno))
    return out


def member_list_map(ctx, holder_qual: str) -> Dict[str, Set[str]]:
    """For a holder class whose __init__ sorts members by isinstance into lists:
    list attribute -> set of element class quals."""
    out: Dict[str, Set[str]] = {}
    # by evaluation on samples where that is possible (the filing may be written in any way), by structure otherwise
    try:
        g, aa = ctx.grammar, ctx.actions
        mrule = g.class_rule(holder_qual)
        alts = _flatten_alt(mrule.children[0], ("Or", "MatchFirst")) if mrule.children else []
        kinds = sorted({q for a in alts for q in aa.constructed_classes(_action_of(g, a).action)})
    except (AnalysisError, AttributeError, IndexError):
        kinds = []
    ev_ = members_by_evaluation(ctx, holder_qual, kinds) if kinds else None
    if ev_ is not None:
        for attr, v in ev_[1].items():
            for x in v:
                if isinstance(x, dict) and "kind" in x:
                    out.setdefault(attr, set()).add(x["kind"])
        if out:
            return out
    for k, attr, _ in member_dispatch(ctx, holder_qual):
        out.setdefault(attr, set()).add(k.qual)
    return out


# ------------------------------------------------------------------------------------------
def _marker_table(g: Grammar, root: GNode) -> Dict[str, str]:
    """literal text -> results name for the named constants of a rule's capture scope."""
    out = {}
    for n, anc in Scope(g, root).members:
        if n.kind in ("Literal", "Keyword") and n.name:
            out[n.text] = n.name
    return out


EXPECTED_SPELLING = {
    "*": ("wrap", "std::shared_ptr<§>"),
    "@": ("suffix", "§*"),
    "&": ("suffix", "§&"),
    "const": ("prefix", "const "),
}


def _action_of(g: Grammar, rule: GNode) -> GNode:
    n = rule
    seen = set()
    while n.action is None:
        if n.uid in seen or not n.children:
            raise AnalysisError(f"no parse action on {rule.label}")
        seen.add(n.uid)
        n = n.children[0]
    return n


def rule_marker_chain(ctx, rep: Report, rid="F3"):
    g, aa, prog = ctx.grammar, ctx.actions, ctx.prog
    tables = {}
    for cls in ("Type", "TemplatedType"):
        rule = g.class_rule(cls)
        act = _action_of(g, rule)
        table = _marker_table(g, act)
        tables[cls] = table
        ci = prog.cls(cls)
        calls = [c for c in aa.constructor_calls(act.action) if c[1].qual == cls]
        if not calls:
            raise AnalysisError(f"{cls}: constructor call of the parse action not found")
        to_cpp = prog.method(cls, "to_cpp")
        init = prog.method(cls, "__init__")
        branches, const_piece = _to_cpp_shape(ctx, ci, to_cpp)
        for lit, (shape, expect) in EXPECTED_SPELLING.items():
            key = f"{cls}:{lit!r}"
            name = table.get(lit)
            if name is None:
                rep.add(rid, f"{key}:marker has a results name", False,
                        f"the dialect marker {lit!r} is not captured under a results name in {cls}.rule",
                        gloc(rule))
                continue
            for call, cci, cinit, mod, tokvar in calls:
                where = f"{mod.rel}:{call.lineno}"
                b = bind_call(cinit, call, drop_self=True)
                params = [p for p, ex in b.items() if isinstance(ex, ast.Attribute)
                          and isinstance(ex.value, ast.Name) and ex.value.id == tokvar and ex.attr == name]
                if len(params) != 1:
                    rep.add(rid, f"{key}:forwarded to one constructor parameter", False,
                            f'results name "{name}" (marker {lit!r}) is passed to {params or "no"} '
                            f"parameter(s) in {unparse(call)[:70]}", where)
                    continue
                p = params[0]
                attrs = [st.targets[0].attr for st in walk_no_nested(init) if isinstance(st, ast.Assign)
                         and len(st.targets) == 1 and isinstance(st.targets[0], ast.Attribute)
                         and isinstance(st.value, ast.Name) and st.value.id == p]
                if len(attrs) != 1:
                    rep.add(rid, f"{key}:stored in one attribute", False,
                            f"parameter {p!r} is stored in {attrs}", f"{ci.mod.rel}:{init.lineno}")
                    continue
                attr = attrs[0]
                if shape == "prefix":
                    ok = const_piece.get(attr) == expect
                    rep.add(rid, f"{key}:spelled as prefix {expect!r} iff the marker was present", ok,
                            f"to_cpp must prefix {expect!r} exactly when self.{attr} is set; found "
                            f"{const_piece}", f"{ci.mod.rel}:{to_cpp.lineno}")
                else:
                    got = branches.get(attr)
                    ok = got is not None and got[0] == expect
                    rep.add(rid, f"{key}:spelled as {expect}", ok,
                            f"the branch of to_cpp guarded exactly by self.{attr} must produce {expect!r}; "
                            f"found {got[0] if got else 'no branch with that exact guard'}",
                            f"{ci.mod.rel}:{to_cpp.lineno}")
        # priority: shared pointer, raw pointer, reference
        order = [a for a in branches]
        want = [table.get("*"), table.get("@"), table.get("&")]
        # map result names to attributes is identity in both classes on the pinned tree; compare by position
        rep.add(rid, f"{cls}:qualifier branches cover the three pointer/reference markers",
                len(branches) >= 3, f"to_cpp branches found for attributes {order}",
                f"{ci.mod.rel}:{to_cpp.lineno}")
    # F2: the two sibling rules agree on markers and names
    rep.add("F2", "Type.rule~TemplatedType.rule:same markers under the same results names",
            tables["Type"] == tables["TemplatedType"],
            f"Type: {tables['Type']}  TemplatedType: {tables['TemplatedType']}",
            gloc(g.class_rule("TemplatedType")))
    shapes = {}
    for cls in ("Type", "TemplatedType"):
        ci = prog.cls(cls)
        br, cp = _to_cpp_shape(ctx, ci, prog.method(cls, "to_cpp"))
        shapes[cls] = ([(a, s) for a, (s, _) in br.items()], cp)
    rep.add("F2", "Type.to_cpp~TemplatedType.to_cpp:same qualifier spelling and priority",
            shapes["Type"] == shapes["TemplatedType"],
            f"Type: {shapes['Type']}  TemplatedType: {shapes['TemplatedType']}",
            f"{prog.cls('TemplatedType').mod.rel}:{prog.method('TemplatedType', 'to_cpp').lineno}")


def _to_cpp_shape(ctx, ci, fn, subject: str = "self"):
    """Branches `if self.A: typename = <template>` of a to_cpp method in order ->
    {attr: (literal skeleton, lineno)}, and the const prefix {attr: text}.  A method that hands the work to
    a helper (`return helper(self, <spelling>)`) is followed into that helper, with the helper's parameter
    standing for self."""
    prog = ctx.prog
    # delegation: the only return is a call that receives the subject itself
    rets = [r for r in walk_no_nested(fn) if isinstance(r, ast.Return) and r.value is not None]
    if len(rets) == 1 and isinstance(rets[0].value, ast.Call) and not any(isinstance(i, ast.If) for i in fn.body):
        call = rets[0].value
        pos = [i for i, a in enumerate(call.args) if isinstance(a, ast.Name) and a.id == subject]
        target = None
        if isinstance(call.func, ast.Name):
            target = ci.mod.functions.get(call.func.id)
            drop = False
        elif isinstance(call.func, ast.Attribute) and unparse(call.func.value) in (subject, ci.qual):
            m = prog.find_method(ci, call.func.attr)
            target = m[1] if m else None
            drop = target is not None and not any(unparse(d) == "staticmethod" for d in target.decorator_list)
        if target is not None and (pos or (isinstance(call.func, ast.Attribute) and unparse(call.func.value) == subject)):
            params = [a.arg for a in target.args.args]
            if pos:
                sub2 = params[pos[0] + (1 if drop else 0)] if pos[0] + (1 if drop else 0) < len(params) else None
            else:
                sub2 = params[0]
            if sub2 is not None:
                return _to_cpp_shape(ctx, ci, target, sub2)
    folder = Folder(prog, ci.mod, fn, ci)
    branches: Dict[str, Tuple[str, int]] = {}
    const_piece: Dict[str, str] = {}

    def exact_self_attr(test) -> Optional[str]:
        if isinstance(test, ast.Attribute) and isinstance(test.value, ast.Name) and test.value.id == subject:
            return test.attr
        return None

    def visit_if(node: ast.If):
        a = exact_self_attr(node.test)
        tpl = None
        for st in node.body:
            if isinstance(st, ast.Assign):
                tpl = _fold_detached(folder, st.value)
        if a is not None and tpl is not None:
            branches[a] = (tpl.literal(), node.lineno)
        elif tpl is not None:
            branches[f"<{unparse(node.test)}>"] = (tpl.literal(), node.lineno)
        for st in node.orelse:
            if isinstance(st, ast.If):
                visit_if(st)

    for st in fn.body:
        if isinstance(st, ast.If):
            visit_if(st)
    for n in ast.walk(fn):
        if isinstance(n, ast.IfExp) and isinstance(n.body, ast.Constant) and isinstance(n.body.value, str) \
                and isinstance(n.orelse, ast.Constant) and n.orelse.value == "":
            a = exact_self_attr(n.test)
            # must be the leading slot of the returned text
            const_piece[a if a else f"<{unparse(n.test)}>"] = n.body.value
    # the const slot must lead the returned template
    for n in ast.walk(fn):
        if isinstance(n, ast.Return) and n.value is not None:
            t = _fold_detached(folder, n.value)
            if t is not None and t.slots():
                first = t.parts[0]
                fe = first.expr if not isinstance(first, str) else None
                if isinstance(fe, ast.Name):
                    fe = single_def(fn, fe.id) or fe        # `const = "const " if self.is_const else ""` held in a local
                lead_ok = not isinstance(first, str) and isinstance(fe, ast.IfExp)
                if not lead_ok:
                    const_piece = {k + ":not-leading": v for k, v in const_piece.items()}
    return branches, const_piece


def _fold_detached(folder: Folder, e):
    """Fold without inlining locals named like the target (typename = f(typename))."""
    saved = folder.fn
    folder.fn = None
    try:
        return folder.fold(e)
    finally:
        folder.fn = saved


# ------------------------------------------------------------------------------------------
def _single_repetition(g: Grammar, top: GNode) -> GNode:
    reps = [n for n, anc in Scope(g, top).members if n.kind == "ZeroOrMore"
            and not any(a.action is not None and a is not top for a in anc)]
    if len(reps) != 1:
        raise AnalysisError(f"{top.label}: expected one top-level repetition, found {len(reps)}")
    return reps[0]


def _alt_labels(g: Grammar, repn: GNode) -> List[str]:
    alts = _flatten_alt(repn.children[0], ("Or", "MatchFirst"))
    out = []
    for a in alts:
        out.append(a.label or ctx_label(g, a))
    return out


def rule_scope_symmetry(ctx, rep: Report, rid="G4"):
    g = ctx.grammar
    root, _ = parse_root(ctx)
    mod_rep = None
    for c in _flatten_and(root):
        if c.kind == "ZeroOrMore" and (mod_rep is None or len(_alt_labels(g, c)) > len(_alt_labels(g, mod_rep))):
            mod_rep = c
    if mod_rep is None:
        raise AnalysisError("Module.rule: top-level repetition not found")
    ns_rule = g.class_rule("Namespace")
    ns_act = _action_of(g, ns_rule)
    ns_rep = _single_repetition(g, ns_act)
    m = sorted(_alt_labels(g, mod_rep))
    n = sorted(_alt_labels(g, ns_rep))
    rep.add(rid, "Module.rule~Namespace.rule:same declaration kinds in both scopes", m == n,
            f"top level accepts {m}; inside a namespace {n}", gloc(ns_rep))
    rep.units["top_level_alternatives"] = m
    kinds_m = mod_rep.children[0].kind if mod_rep.children else "?"
    kinds_n = ns_rep.children[0].kind if ns_rep.children else "?"
    rep.add(rid, "Module.rule~Namespace.rule:same choice operator", kinds_m == kinds_n,
            f"top level combines alternatives with {kinds_m}, namespaces with {kinds_n}", gloc(ns_rep))
    if len(m) < 8:
        raise AnalysisError(f"{rep.prop}/{rid}: only {len(m)} top-level alternatives (8 on the pinned tree)")


def rule_member_exhaustive(ctx, rep: Report, rid="G5", min_kinds=7):
    g, aa, prog = ctx.grammar, ctx.actions, ctx.prog
    mrule = g.class_rule("Class.Members")
    if mrule.kind != "ZeroOrMore" or not mrule.children:
        raise AnalysisError("Class.Members.rule is not a repetition")
    alts = _flatten_alt(mrule.children[0], ("Or", "MatchFirst"))
    alt_classes: Dict[str, GNode] = {}
    for a in alts:
        an = _action_of(g, a)
        for q in aa.constructed_classes(an.action):
            alt_classes[q] = a
    mp = member_list_map(ctx, "Class.Members")          # list attr -> element classes
    by_class = {}
    for attr, qs in mp.items():
        for q in qs:
            by_class.setdefault(q, []).append(attr)
    # where the constructor can be evaluated on samples, what lands where is read off the result (however the sorting is written)
    evaluated = members_by_evaluation(ctx, "Class.Members", sorted(alt_classes))
    if evaluated is not None:
        samples_, lists_ = evaluated
        by_class = {}
        for attr, v in lists_.items():
            for x in v:
                if isinstance(x, dict) and "kind" in x and attr not in by_class.setdefault(x["kind"], []):
                    by_class[x["kind"]].append(attr)
    ci_members = prog.cls("Class.Members")
    init = prog.method("Class.Members", "__init__")
    # order of isinstance branches (for shadowing)
    order = [(ln, k) for k, _attr, ln in member_dispatch(ctx, "Class.Members")]
    # Class.rule's action
    crule = g.class_rule("Class")
    cact = _action_of(g, crule)
    calls = aa.constructor_calls(cact.action)
    if len(calls) != 1:
        raise AnalysisError("Class.rule action: constructor call not resolved")
    call, cci, cinit, mod, tokvar = calls[0]
    b = bind_call(cinit, call, drop_self=True)
    passed = {}   # members attr -> param
    for p, ex in b.items():
        if isinstance(ex, ast.Attribute) and isinstance(ex.value, ast.Attribute):
            passed[ex.attr] = p
    anns = {x.arg: x.annotation for x in cinit.args.args}
    stores = {st.value.id: st.targets[0].attr for st in walk_no_nested(cinit) if isinstance(st, ast.Assign)
              and len(st.targets) == 1 and isinstance(st.targets[0], ast.Attribute)
              and isinstance(st.value, ast.Name)}
    if len(alt_classes) < min_kinds:
        raise AnalysisError(f"{rep.prop}/{rid}: {len(alt_classes)} member kinds, {min_kinds} expected")
    for q, a in sorted(alt_classes.items()):
        where = gloc(a)
        attrs = by_class.get(q, [])
        rep.add(rid, f"member:{q}:sorted into a list by Members.__init__", len(attrs) == 1,
                f"a parsed {q} is appended to {attrs or 'no list'}: the declaration is dropped or duplicated",
                f"{ci_members.mod.rel}:{init.lineno}")
        k = prog.cls(q)
        idx = [i for i, (_, kk) in enumerate(order) if kk is k]
        shadow = [kk.qual for (_, kk) in order[: idx[0]] if prog.is_subclass(k, kk)] if idx else []
        rep.add(rid, f"member:{q}:isinstance branch not shadowed", (bool(idx) and not shadow) or (evaluated is not None and len(attrs) == 1),
                f"branch for {q} is shadowed by earlier branch(es) on {shadow}" if shadow else
                f"no isinstance branch for {q}", f"{ci_members.mod.rel}:{init.lineno}")
        for attr in attrs:
            p = passed.get(attr)
            rep.add(rid, f"member:{q}:Members.{attr} passed to Class(...)", p is not None,
                    f"list Members.{attr} is not handed to the Class constructor", f"{mod.rel}:{call.lineno}")
            if p is None:
                continue
            acls, decisive = _ann_classes(prog, anns.get(p), cci.mod)
            if decisive:
                rep.add(rid, f"member:{q}:lands in parameter typed for it", any(_compatible(prog, q, y) for y in acls),
                        f"Members.{attr} (holding {q}) is passed as {p!r}, annotated {unparse(anns[p])}",
                        f"{mod.rel}:{call.lineno}")
            rep.add(rid, f"member:{q}:stored on the Class node", p in stores,
                    f"parameter {p!r} is not stored on the node", f"{cci.mod.rel}:{cinit.lineno}")
    extra = sorted(set(by_class) - set(alt_classes))
    rep.add(rid, "Members.__init__:no branch for a kind the grammar cannot produce", not extra,
            f"isinstance branches for {extra} have no grammar alternative", f"{ci_members.mod.rel}:{init.lineno}",
            nontrivial=False)


REORDER_CALLS = {"sorted", "reversed", "set", "frozenset", "shuffle"}
REORDER_METHODS = {"sort", "reverse", "shuffle"}


def rule_no_reorder(ctx, rep: Report, rid="G6", package="gtwrap/interface_parser"):
    prog = ctx.prog
    n = 0
    for mi in prog.modules.values():
        if not mi.rel.startswith(package):
            continue
        n += 1
        found = []
        for c in ast.walk(mi.tree):
            # a set that only answers questions (membership, truth, algebra, an error message) reorders nothing that is kept
            if (isinstance(c, (ast.Set, ast.SetComp)) or (isinstance(c, ast.Call) and isinstance(c.func, ast.Name) and c.func.id in ("set", "frozenset", "sorted"))) \
                    and (enclosing(c, ast.Raise) is not None or (not (isinstance(c, ast.Call) and c.func.id == "sorted")
                                                                  and order_free_use(c, enclosing(c, (ast.FunctionDef, ast.Module)) or mi.tree))):
                continue
            if isinstance(c, ast.Call):
                if isinstance(c.func, ast.Name) and c.func.id in REORDER_CALLS:
                    found.append((c.func.id, c.lineno))
                elif isinstance(c.func, ast.Attribute) and c.func.attr in REORDER_METHODS:
                    found.append(("." + c.func.attr, c.lineno))
            elif isinstance(c, (ast.Set, ast.SetComp)):
                found.append(("set literal", c.lineno))
        rep.add(rid, f"no reordering of parse results in {mi.rel}", not found,
                "declaration order must be preserved; found " + ", ".join(f"{a}@{l}" for a, l in found),
                f"{mi.rel}:{found[0][1] if found else 0}", nontrivial=bool(found))
    if n < 10:
        raise AnalysisError(f"{rep.prop}/{rid}: {n} parser modules scanned, >= 10 expected")


def rule_ordered_choice(ctx, rep: Report, rid="G7"):
    g = ctx.grammar
    root, _ = parse_root(ctx)
    seen = set()
    for n in g.reachable(root):
        if n.kind != "MatchFirst":
            continue
        par_is_mf = False
        for m in g.reachable(root):
            if m.kind == "MatchFirst" and any(c.uid == n.uid for c in m.children) and not n.name and n.action is None:
                par_is_mf = True
        if par_is_mf:
            continue
        alts = []
        for c in n.children:
            alts += _flatten_alt(c, ("MatchFirst",))
        key = tuple(a.origin for a in alts)
        if key in seen:
            continue
        seen.add(key)
        problems = []
        for i in range(len(alts)):
            for j in range(i + 1, len(alts)):
                fa, fb = first_terms(alts[i]), first_terms(alts[j])
                for (ka, ta) in fa:
                    for (kb, tb) in fb:
                        if ka in ("Literal", "Keyword") and kb in ("Literal", "Keyword"):
                            if ta == tb or (ka == "Literal" and tb.startswith(ta) and ta != tb):
                                problems.append(f"{alts[i].describe()} before {alts[j].describe()}: "
                                                f"{ta!r} is a prefix of {tb!r}")
                        elif ka in VARIABLE_TERMINALS and kb in VARIABLE_TERMINALS and ka == kb:
                            problems.append(f"{alts[i].describe()} and {alts[j].describe()} both start "
                                            f"with a {ka}")
                        elif ka in VARIABLE_TERMINALS and kb == "Keyword":
                            problems.append(f"{alts[i].describe()} (starts with any word) shadows "
                                            f"{alts[j].describe()} (keyword {tb!r})")
        rep.add(rid, f"first-match:{ctx_label(g, n)}", not problems,
                "with `|` the first matching alternative wins even if a later one matches more: " +
                "; ".join(problems[:3]), gloc(n))


def rule_lists_kept_whole(ctx, rep: Report, rid="G10", package="gtwrap/interface_parser", min_sites=4):
    """Wherever the parser copies a parsed sequence into a node (a loop that appends to a list, or a comprehension)
    the whole sequence is walked and every element ends up in a list exactly once: no slice, no filter, no
    `continue`/`break`, no membership test before the append.  (Routing by isinstance - Class.Members - is G5's
    business and is recognised here as 'every branch appends'.)"""
    prog = ctx.prog
    n = 0
    for mi in sorted(prog.modules.values(), key=lambda m: m.rel):
        if not mi.rel.startswith(package):
            continue
        # (a property is a view computed from the node on request - a filtered one included -, not the tree the parser builds)
        fns = [(f"{q}.{m}", f) for q, c in mi.classes.items() for m, f in c.methods.items() if not m.startswith("find")
               and not any(unparse(d) in ("property", "cached_property", "functools.cached_property") for d in f.decorator_list)]
        for name, fn in sorted(fns):
            params = set(func_params(fn))
            # locals that are plain aliases of a parameter (ti_list = typename_and_instantiations_list)
            for st in walk_no_nested(fn):
                if isinstance(st, ast.Assign) and len(st.targets) == 1 and isinstance(st.targets[0], ast.Name) \
                        and isinstance(st.value, ast.Name) and st.value.id in params:
                    params.add(st.targets[0].id)
            for node in walk_no_nested(fn):
                # --- loops that append
                if isinstance(node, ast.For):
                    apps = [c for c in ast.walk(node) if isinstance(c, ast.Call) and isinstance(c.func, ast.Attribute) and c.func.attr == "append"
                            and enclosing(c, ast.For) is node]
                    if not apps:
                        continue
                    it = node.iter
                    base = it
                    while isinstance(base, ast.Call) and isinstance(base.func, ast.Attribute) and base.func.attr in ("asList", "as_list", "list") and not base.args:
                        base = base.func.value
                    roots = {x.id for x in ast.walk(base) if isinstance(x, ast.Name)}
                    if not (roots & params) and not any(isinstance(x, ast.Attribute) for x in ast.walk(base)):
                        continue
                    n += 1
                    whole = isinstance(base, (ast.Name, ast.Attribute)) or (isinstance(base, ast.Call) and isinstance(base.func, ast.Name)
                                                                           and base.func.id in ("enumerate",) and isinstance(base.args[0], (ast.Name, ast.Attribute)))
                    jumps = [x for x in ast.walk(node) if isinstance(x, (ast.Continue,)) and enclosing(x, ast.For) is node]
                    brks = [x for x in ast.walk(node) if isinstance(x, ast.Break) and enclosing(x, (ast.For, ast.While)) is node]

                    def appends_once(stmts) -> bool:
                        """every path through stmts performs exactly one append (or the block is an isinstance dispatch)"""
                        cnt = 0
                        for st in stmts:
                            if isinstance(st, ast.If):
                                a, b = appends_once(st.body), (appends_once(st.orelse) if st.orelse else None)
                                disp = isinstance(st.test, ast.Call) and unparse(st.test.func) == "isinstance"
                                if disp:
                                    # a type dispatch may leave other kinds to other lists / drop unknown kinds (G5 decides)
                                    cnt += 1 if a else 0
                                    continue
                                if b is None:
                                    if a:
                                        return False          # appended only under a condition
                                    continue
                                if a != b:
                                    return False
                                cnt += 1 if a else 0
                            elif isinstance(st, ast.For):
                                if any(isinstance(c, ast.Call) and isinstance(c.func, ast.Attribute) and c.func.attr == "append" for c in ast.walk(st)):
                                    cnt += 1              # table-driven dispatch: judged by G5
                            else:
                                cnt += sum(1 for c in ast.walk(st) if isinstance(c, ast.Call) and isinstance(c.func, ast.Attribute) and c.func.attr == "append")
                        return cnt == 1
                    once = appends_once(node.body)
                    rep.add(rid, f"list-copy:{name}:loop over {unparse(it)[:40]}", whole and once and not jumps and not brks,
                            f"iterates {'the whole sequence' if whole else 'a slice / filtered view: ' + unparse(it)[:50]}; "
                            f"{'one append on every path' if once else 'an element can be skipped or added twice (conditional append)'}; "
                            f"continue/break: {len(jumps) + len(brks)} - a declared element (an instantiation, an argument, an enumerator) "
                            f"is dropped or duplicated in the parse tree", f"{mi.rel}:{node.lineno}")
                # --- comprehensions over a parameter / attribute
                elif isinstance(node, (ast.ListComp, ast.GeneratorExp)) and len(node.generators) == 1:
                    gen = node.generators[0]
                    base = gen.iter
                    roots = {x.id for x in ast.walk(base) if isinstance(x, ast.Name)}
                    if not (roots & params):
                        continue
                    if "self" in roots and fn.name in ("__repr__", "__str__"):
                        continue
                    n += 1
                    def whole_list(b_) -> bool:
                        if isinstance(b_, (ast.Name, ast.Attribute)):
                            return True
                        # `xs or ()` / `xs or []`: the list itself, or nothing where there is none
                        if isinstance(b_, ast.BoolOp) and isinstance(b_.op, ast.Or) and whole_list(b_.values[0]) and \
                                all(isinstance(x, (ast.Tuple, ast.List)) and not x.elts for x in b_.values[1:]):
                            return True
                        if isinstance(b_, ast.Call) and isinstance(b_.func, ast.Attribute) and b_.func.attr in ("asList", "as_list") and not b_.args:
                            return True
                        # several whole lists walked side by side (their alignment is G14's business), or a list with its positions
                        if isinstance(b_, ast.Call) and (dotted(b_.func) or "").split(".")[-1] in ("zip", "zip_longest", "enumerate") and b_.args:
                            return all(whole_list(x) for x in b_.args if not isinstance(x, ast.Constant))
                        return False
                    whole = whole_list(base)
                    cv = {x.id for x in ast.walk(gen.target) if isinstance(x, ast.Name)}
                    elt_txt = unparse(node.elt)
                    for v_ in sorted(cv, key=len, reverse=True):
                        elt_txt = re.sub(rf"\b{re.escape(v_)}\b", "_", elt_txt)
                    base_txt = unparse(base)
                    for v_ in sorted(params - set(func_params(fn)), key=len, reverse=True):
                        base_txt = re.sub(rf"\b{re.escape(v_)}\b", "<alias>", base_txt)
                    rep.add(rid, f"list-copy:{name}:comprehension `{elt_txt[:30]}` over {base_txt[:30]}",
                            whole and not gen.ifs, f"`{unparse(node)[:80]}`: a filter or slice drops declared elements from the parse tree",
                            f"{mi.rel}:{node.lineno}")
    if n < min_sites:
        raise AnalysisError(f"{rep.prop}/{rid}: only {n} list-copying sites found in the parser ({min_sites} expected)")


def rule_ctor_params_stored(ctx, rep: Report, rid="G11", package="gtwrap/interface_parser", min_params=40):
    """Every value handed to a parser node's constructor ends up on the node: each parameter (except the `parent`
    back-link, which the owner sets) occurs in the value of an assignment to a `self.<attr>` on every path - an
    unconditional assignment, or one in each branch of an if/else - or is at least consulted by a validation.  A
    parameter that is stored only under a condition, or not at all, drops declared information from the tree."""
    prog = ctx.prog
    n = 0
    for mi in sorted(prog.modules.values(), key=lambda m: m.rel):
        if not mi.rel.startswith(package):
            continue
        for q, ci in sorted(mi.classes.items()):
            init = ci.methods.get("__init__")
            if init is None:
                continue
            params = [p for p in func_params(init)[1:] if p != "parent"]

            def stores(stmts, p) -> bool:
                """some self.<attr> = <value mentioning p> is executed on every path through stmts"""
                for st in stmts:
                    if isinstance(st, (ast.Assign, ast.AnnAssign)) and st.value is not None:
                        tg = st.targets if isinstance(st, ast.Assign) else [st.target]
                        if any(isinstance(t, ast.Attribute) and isinstance(t.value, ast.Name) and t.value.id == "self" for t in tg) and \
                                any(isinstance(x, ast.Name) and x.id == p for x in ast.walk(st.value)):
                            return True
                    if isinstance(st, ast.If) and st.orelse and stores(st.body, p) and stores(st.orelse, p):
                        return True
                    # `if p: self.x = <from p> else: self.x = <default>`: the test is on p itself, the other branch gives the
                    # attribute its empty value
                    if isinstance(st, ast.If) and st.orelse and any(isinstance(x, ast.Name) and x.id == p for x in ast.walk(st.test)):
                        def attrs(block):
                            return {unparse(t) for y in block for z in ast.walk(y) if isinstance(z, (ast.Assign, ast.AnnAssign))
                                    for t in (z.targets if isinstance(z, ast.Assign) else [z.target])
                                    if isinstance(t, ast.Attribute) and isinstance(t.value, ast.Name) and t.value.id == "self"}
                        for body, other in ((st.body, st.orelse), (st.orelse, st.body)):
                            if stores(body, p) and attrs(body) & attrs(other):
                                return True
                    if isinstance(st, ast.Expr) and isinstance(st.value, ast.Call) and unparse(st.value.func).startswith("super(") and \
                            any(isinstance(x, ast.Name) and x.id == p for x in ast.walk(st.value)):
                        return True          # handed to the base class constructor
                return False

            def stored_in_branch_only(p) -> bool:
                return any(isinstance(st, (ast.Assign, ast.AnnAssign)) and st.value is not None and
                           any(isinstance(x, ast.Name) and x.id == p for x in ast.walk(st.value)) for st in walk_no_nested(init))
            for p in params:
                n += 1
                ok = stores(init.body, p)
                # a parameter that only feeds a loop which files its elements (Members) or a local that is stored
                if not ok:
                    loc_vars = {st.targets[0].id for st in walk_no_nested(init) if isinstance(st, ast.Assign) and len(st.targets) == 1
                                and isinstance(st.targets[0], ast.Name) and any(isinstance(x, ast.Name) and x.id == p for x in ast.walk(st.value))}
                    ok = any(stores(init.body, v) for v in loc_vars) or any(
                        isinstance(l, ast.For) and any(isinstance(x, ast.Name) and x.id == p for x in ast.walk(l.iter))
                        and any(isinstance(c, ast.Call) and isinstance(c.func, ast.Attribute) and c.func.attr == "append" for c in ast.walk(l))
                        for l in walk_no_nested(init))
                rep.add(rid, f"stored:{q}.__init__:{p}", ok,
                        f"parameter `{p}` of {q} is {'stored only on some paths' if stored_in_branch_only(p) else 'never stored'}: what the grammar "
                        f"captured for it (a base class, a flag, a list) is missing from the node", f"{mi.rel}:{init.lineno}")
    if n < min_params:
        raise AnalysisError(f"{rep.prop}/{rid}: only {n} constructor parameters of parser nodes found")


# ------------------------------------------------------------------------------------------------------------------
# G13: the shape of a named result (one value, or pyparsing's list wrapper) agrees with how the constructor uses it
LIST_KINDS = {"ZeroOrMore", "OneOrMore", "Group", "Each", "Dict", "DelimitedList"}


def save_as_list(n: GNode, _seen=None) -> bool:
    """pyparsing's static `saveAsList` of an element: And is a list container (its default), Or / MatchFirst are when
    one alternative is, Optional / Forward / other wrappers take it from what they wrap, repetitions and Group always,
    terminals, Suppress, Combine and originalTextFor never."""
    _seen = _seen if _seen is not None else set()
    if n.uid in _seen:
        return False
    _seen = _seen | {n.uid}
    if n.kind == "And":
        return True
    if n.kind in LIST_KINDS:
        return True
    if n.kind in ("Or", "MatchFirst"):
        return any(save_as_list(c, _seen) for c in n.children)
    if n.kind in ("Optional", "Forward"):
        return any(save_as_list(c, _seen) for c in n.children)
    return False


def result_shape(n: GNode) -> str:
    """What `tokens.<name>` holds for the named element n: 'value' (the object its own parse action returned, or the
    matched text), 'list' (the values of a sequence / repetition) or 'wrapped' (an alternation of node rules without an
    action of its own: the one node that matched, inside pyparsing's list wrapper)."""
    if n.action is not None:
        return "value"          # ParseResults(<returned object>, name, asList=... and isinstance(tokens, list)): the object itself
    if not save_as_list(n):
        return "value"
    core = n
    while core.kind in ("Optional", "Forward") and core.action is None and len(core.children) == 1:
        core = core.children[0]
    def one_node(c, seen=()) -> bool:
        if c.action is not None:
            return True
        return c.kind == "Forward" and c.uid not in seen and len(c.children) == 1 and one_node(c.children[0], seen + (c.uid,))
    if core.kind in ("Or", "MatchFirst") and core.action is None and core.children and all(one_node(c) for c in core.children):
        return "wrapped"        # exactly one node, inside a list wrapper
    return "list"               # a sequence of values: a list is what it is


def _may_repeat(n: GNode) -> bool:
    core = n
    while core.kind in ("Optional", "Forward", "Group") and core.action is None and len(core.children) == 1:
        core = core.children[0]
    return core.kind in ("ZeroOrMore", "OneOrMore", "DelimitedList") and core.action is None


def rule_result_shapes(ctx, rep: Report, rid="G13", min_bindings=20):
    """A results name on an element that has no parse action of its own and is a list container - an alternation of
    node rules `(A.rule ^ B.rule)("base")`, a bare sequence, a repetition - yields pyparsing's list wrapper, not the
    node.  (The repository patches ParseResults.__getattr__ to answer '' for unknown names, so reading `.name` off the
    wrapper silently gives ''.)  Wherever an action hands such a result to a constructor as it is, the constructor has
    to take it apart: subscript, iteration, asList().  Storing the wrapper in a field that readers treat as a node is the
    defect this rule reports; the converse - taking `[0]` of a single value - is reported as well."""
    g, aa, prog = ctx.grammar, ctx.actions, ctx.prog
    root, _ = parse_root(ctx)
    n = 0
    for a in aa.distinct_actions(root):
        lab = aa.label(a)
        calls = aa.constructor_calls(a.action)
        if not calls:
            continue
        defined = Scope(g, a).defined_names()
        for call, ci, init, mod, tokvar in calls:
            try:
                b = bind_call(init, call, drop_self=True)
            except AnalysisError:
                continue
            for p, argx in b.items():
                if p.startswith("<") or not (isinstance(argx, ast.Attribute) and isinstance(argx.value, ast.Name) and argx.value.id == tokvar):
                    continue
                nodes = defined.get(argx.attr, [])
                if not nodes:
                    continue
                shapes = {result_shape(x) for x in nodes}
                n += 1
                uses = [x for x in ast.walk(init) if isinstance(x, ast.Name) and x.id == p and isinstance(x.ctx, ast.Load)]
                taken_apart = []
                as_value = []
                for u in uses:
                    q = parent(u)
                    if isinstance(q, ast.Subscript) and q.value is u:
                        taken_apart.append(f"{p}[{unparse(q.slice)}]")
                    elif isinstance(q, (ast.For, ast.comprehension)) and q.iter is u:
                        taken_apart.append(f"for .. in {p}")
                    elif isinstance(q, ast.Attribute) and q.value is u and q.attr in ("asList", "as_list"):
                        taken_apart.append(f"{p}.{q.attr}()")
                    elif isinstance(q, ast.Call) and u in q.args and unparse(q.func) in ("list", "tuple", "len", "iter", "enumerate", "reversed", "sorted"):
                        taken_apart.append(f"{unparse(q.func)}({p})")
                    elif isinstance(q, ast.Attribute) and q.value is u:
                        as_value.append(f"{p}.{q.attr}")
                    elif isinstance(q, ast.Assign) and q.value is u and any(isinstance(t, ast.Attribute) for t in q.targets):
                        as_value.append(f"{unparse(q.targets[0])} = {p}")
                where = f"{ci.mod.rel}:{init.lineno}"
                if shapes == {"wrapped"}:
                    # stored / read as a value without ever having been taken apart
                    ok = bool(taken_apart) or not as_value
                    rep.add(rid, f"{lab}->{ci.qual}({p}):the one node inside a list wrapper is taken out by the constructor", ok,
                            f"`{unparse(argx)}` is the list wrapper pyparsing builds for {nodes[0].describe()} (a named {nodes[0].kind} without a parse action of "
                            f"its own), but {ci.qual}.__init__ uses it as the node itself ({as_value[:2]}): the field holds ParseResults([node]); `.name`, "
                            f"`.namespaces` read off it are '' (unknown names answer ''), isinstance tests on it never hold", where)
                elif shapes == {"list"} and all(_may_repeat(x) for x in nodes):
                    # a repetition: however many values were parsed, the constructor has to look at all of them
                    # `p = p[0]`: from there on the name is one element, not the list
                    rebinds = [st for st in ast.walk(init) if isinstance(st, ast.Assign) and len(st.targets) == 1 and isinstance(st.targets[0], ast.Name)
                               and st.targets[0].id == p]
                    cut = min((st.lineno for st in rebinds), default=None)
                    live = [u for u in uses if cut is None or u.lineno < cut or any(u in list(ast.walk(st.value)) for st in rebinds if st.lineno == cut)]
                    whole, first_only = [], []
                    for u in live:
                        q = parent(u)
                        if isinstance(q, ast.Subscript) and q.value is u:
                            (first_only if not isinstance(q.slice, ast.Slice) else whole).append(f"{p}[{unparse(q.slice)}]")
                        elif isinstance(q, (ast.For, ast.comprehension)) and q.iter is u:
                            whole.append(f"for .. in {p}")
                        elif isinstance(q, ast.Attribute) and q.value is u and q.attr in ("asList", "as_list"):
                            whole.append(f"{p}.{q.attr}()")
                        elif isinstance(q, ast.Call) and u in q.args and unparse(q.func) in ("list", "tuple", "iter", "enumerate", "reversed", "sorted"):
                            whole.append(f"{unparse(q.func)}({p})")
                    stored = any((isinstance(parent(u), (ast.Assign, ast.Return)) and parent(u).value is u and not (
                                  isinstance(parent(u), ast.Assign) and isinstance(parent(u).targets[0], ast.Name) and parent(u).targets[0].id == p))
                                 or (isinstance(parent(u), ast.Call) and u in parent(u).args and unparse(parent(u).func) not in ("isinstance", "len", "bool", "type"))
                                 or isinstance(parent(u), ast.keyword) for u in live)
                    ok = bool(whole) or stored or not first_only
                    rep.add(rid, f"{lab}->{ci.qual}({p}):every value of a repetition is kept", ok,
                            f"`{unparse(argx)}` holds the values of {nodes[0].describe()} (a {nodes[0].kind}: any number of them), but {ci.qual}.__init__ only "
                            f"takes {first_only[:1]}: whatever else the text listed is parsed, accepted and dropped without a trace", where, nontrivial=not ok)
                elif shapes == {"value"}:
                    idx = [t for t in taken_apart if t.startswith(f"{p}[")]
                    guarded = any(isinstance(x, ast.Call) and unparse(x.func) == "isinstance" and x.args and unparse(x.args[0]) == p for x in ast.walk(init))
                    rep.add(rid, f"{lab}->{ci.qual}({p}):a single value is not subscripted", not idx or guarded,
                            f"`{unparse(argx)}` is the value of {nodes[0].describe()} itself, but {ci.qual}.__init__ takes {idx[:1]} of it", where,
                            nontrivial=bool(idx))
    rep.units["named_results_bound"] = n
    if n < min_bindings:
        raise AnalysisError(f"{rep.prop}/{rid}: only {n} named results handed to constructors ({min_bindings} expected)")


def rule_parallel_results_aligned(ctx, rep: Report, rid="G14", min_actions=20):
    """Two results that an action pairs up by position (`zip(t.names, t.lists)`, `zip_longest`, the same index into both)
    have one entry per repetition *each*: a name that sits under an `Optional` inside the repeated element collects an
    entry only where the optional part was written, so the k-th entry of one list no longer belongs to the k-th entry of
    the other (the instantiation list of the second template parameter is attached to the first)."""
    g, aa, prog = ctx.grammar, ctx.actions, ctx.prog
    root, _ = parse_root(ctx)
    n_actions, n = 0, 0
    for a in aa.distinct_actions(root):
        n_actions += 1
        lv = a.action
        node = lv.node
        scopes = [node]
        tok = None
        if isinstance(node, ast.Lambda) and node.args.args:
            tok = node.args.args[-1].arg
            if isinstance(node.body, ast.Call):
                tgt = aa.resolve_callee(node.body, lv.mi, lv.cls_qual)
                if tgt is not None:
                    try:
                        b = bind_call(tgt[1], node.body, drop_self=tgt[2])
                    except AnalysisError:
                        b = {}
                    for pn, ax in b.items():
                        if isinstance(ax, ast.Name) and ax.id == tok:
                            scopes.append((tgt[1], pn))
        members = Scope(g, a).members
        by_name: Dict[str, List[Tuple[GNode, Tuple[GNode, ...]]]] = {}
        for nd, anc in members:
            if nd.name:
                by_name.setdefault(nd.name, []).append((nd, anc))
        for sc in scopes:
            body, tv = (sc, tok) if not isinstance(sc, tuple) else sc
            for c in ast.walk(body):
                if not (isinstance(c, ast.Call) and (dotted(c.func) or "").split(".")[-1] in ("zip", "zip_longest") and len(c.args) >= 2):
                    continue
                names = [x.attr for x in c.args if isinstance(x, ast.Attribute) and isinstance(x.value, ast.Name) and x.value.id == tv]
                if len(names) < 2 or any(nm not in by_name for nm in names):
                    continue
                n += 1

                def optional_in_repetition(nd, anc) -> Optional[bool]:
                    reps = [i for i, x in enumerate(anc) if x.kind in REPETITIONS]
                    if not reps:
                        return None
                    below = anc[reps[-1] + 1:]
                    return any(x.kind in ("Optional", "Or", "MatchFirst") for x in below)
                flags = {nm: {optional_in_repetition(nd, anc) for nd, anc in by_name[nm]} for nm in names}
                flat = {nm: (next(iter(v)) if len(v) == 1 else None) for nm, v in flags.items()}
                ok = len(set(flat.values())) == 1 and None not in flat.values() and True not in flat.values()
                if set(flat.values()) == {None}:
                    ok = True            # not collected in a repetition at all
                rep.add(rid, f"{aa.label(a)}:{unparse(c)[:50]}:the paired results have one entry per repetition each", ok,
                        f"per repetition, optional: {flat}: the results are paired by position, but one of them gets an entry only where an optional part "
                        f"was written - entries shift to the front and are attributed to another element", f"{lv.mi.rel}:{c.lineno}")
    rep.units["paired_results"] = n
    if n_actions < min_actions:
        raise AnalysisError(f"{rep.prop}/{rid}: only {n_actions} parse actions scanned")


def members_by_evaluation(ctx, holder_qual: str, kinds: List[str]):
    """Runs the holder's __init__ (the analyser's own interpreter, sample objects) on a member sequence in which every kind
    occurs three times, never next to itself, and same-named members are not adjacent.  Returns (samples, {attr: list}) or
    None when the function is written with constructs the interpreter does not know."""
    from .rules_matlab import ClassTok, SampleObj, _PathEval, _Raised, mini_exec
    prog = ctx.prog
    ci = prog.cls(holder_qual)
    init = prog.find_method(ci, "__init__")
    if init is None:
        return None
    fn = init[1]
    ps = func_params(fn)
    if len(ps) != 2:
        return None

    def bases(q):
        k = prog.cls(q)
        return [b.qual.split(".")[-1] for b in prog.mro(k)[1:]] if k is not None else []
    samples = []
    for rnd, nm in enumerate(("insert", "size", "insert")):
        for q in (kinds if rnd != 1 else list(reversed(kinds))):
            samples.append(SampleObj(__kind__=q.split(".")[-1], __bases__=bases(q), name=nm, kind=q, pos=len(samples)))
    me = SampleObj()
    env = {ps[0]: me, ps[1]: list(samples)}
    for q in kinds:
        env.setdefault(q.split(".")[-1], ClassTok(q.split(".")[-1]))
    try:
        mini_exec(fn, env, budget=6000)
    except (_PathEval.Unknown, _Raised):
        return None
    return samples, {a: v for a, v in me.items() if isinstance(v, list)}


def rule_members_in_source_order(ctx, rep: Report, rid="G16", min_kinds=7):
    """Class.Members.__init__ files the parsed members of a class under the list of their kind.  Decided by evaluation on
    a sample sequence (every kind three times, interleaved, same-named methods apart): every member ends up in exactly one
    list, members of one kind in the same list, and every list is in the order of the source - a grouping by name, a
    sort or a de-duplication moves a later overload in front of declarations that precede it."""
    g, aa, prog = ctx.grammar, ctx.actions, ctx.prog
    mrule = g.class_rule("Class.Members")
    alts = _flatten_alt(mrule.children[0], ("Or", "MatchFirst"))
    kinds = sorted({q for a in alts for q in aa.constructed_classes(_action_of(g, a).action)})
    if len(kinds) < min_kinds:
        raise AnalysisError(f"{rep.prop}/{rid}: {len(kinds)} member kinds, {min_kinds} expected")
    ci = prog.cls("Class.Members")
    init = prog.method("Class.Members", "__init__")
    loc = f"{ci.mod.rel}:{init.lineno}"
    r = members_by_evaluation(ctx, "Class.Members", kinds)
    if r is None:
        # written in a way the interpreter does not follow: the structural rules (G5, G6) still decide what they can
        rep.add(rid, "Members.__init__:evaluated on a sample member sequence", True, "not evaluable; G5 decides by structure", loc, nontrivial=False)
        return
    samples, lists = r
    for q in kinds:
        mine = [m for m in samples if m["kind"] == q]
        homes = [a for a, v in lists.items() if any(x is m for m in mine for x in v)]
        counts = [sum(1 for v in lists.values() for x in v if x is m) for m in mine]
        rep.add(rid, f"member:{q}:every parsed one is kept once, all in one list", len(homes) == 1 and counts == [1] * len(mine),
                f"three {q} members in the sample end up in list(s) {homes or 'none'} {counts} time(s): a declaration is dropped, duplicated or filed "
                f"under two lists", loc)
    for a, v in sorted(lists.items()):
        pos = [x["pos"] for x in v if isinstance(x, dict) and "pos" in x]
        rep.add(rid, f"list:{a}:members in the order of the source", pos == sorted(pos),
                f"members declared at positions {sorted(pos)} are stored in the order {pos}: overloads declared apart are pulled together (or the list "
                f"is sorted), so everything generated from it no longer follows the interface file", loc)


def rule_namespace_chain_by_evaluation(ctx, rep: Report, rid="G17"):
    """collect_namespaces(obj) walks the parent links upwards and returns the path outermost first, with '' for the global
    scope in front.  Decided by evaluation on parent chains of depth 0 to 4 (depth 3 is the first that tells a permuted
    path from the right one)."""
    from .rules_matlab import SampleObj, _PathEval, _Raised, mini_exec
    prog = ctx.prog
    fn, rel = None, ""
    for mi, f_ in prog.functions_named("collect_namespaces"):
        if "interface_parser" in mi.rel:
            fn, rel = f_, mi.rel
    if fn is None:
        raise AnalysisError("anchor vanished: interface_parser/utils.py collect_namespaces")
    p = func_params(fn)[0]
    got, want, err = [], [], None
    for depth in range(0, 5):
        names = ["n%d" % i for i in range(depth)]
        node = SampleObj(name="", parent="")
        for nm in names:
            node = SampleObj(name=nm, parent=node)
        obj = SampleObj(name="X", parent=node)
        want.append([""] + names)
        try:
            got.append(mini_exec(fn, {p: obj}, budget=4000))
        except (_PathEval.Unknown, _Raised) as ex:
            err = str(ex)
            break
    if err is not None:
        raise AnalysisError(f"{rel}:{fn.lineno}: collect_namespaces is written in a way this rule cannot evaluate ({err})")
    rep.add(rid, "collect_namespaces:the path of a declaration is its enclosing namespaces, outermost first", got == want,
            f"for declarations nested 0..4 namespaces deep the function returns {got[3:]} (depth 3, 4), the enclosing scopes are {want[3:]}: classes, enums and "
            f"forward declarations of deeper namespaces are attributed to another scope", f"{rel}:{fn.lineno}")


def rule_ctor_stores_what_it_was_given(ctx, rep: Report, rid="G18", package="gtwrap/interface_parser", min_params=40):
    """A parser node carries what was written, nothing dropped and nothing added: in the constructors of the parser's node
    classes a parameter is never replaced by a part of itself before it is stored (`base = base.typename` keeps the name of a
    templated base and loses the const / reference / pointer markers of its arguments), and what is stored for a parameter is
    not completed with a non-empty constant (`is_virtual or 'virtual'` turns an absent keyword into a declared one).
    Unwrapping pyparsing's list wrapper (`x = x[0]`, `asList()`) and the empty defaults (`''`, `[]`, `None`) are the idioms
    the tree uses and are accepted."""
    prog = ctx.prog
    n = 0
    for mi in sorted(prog.modules.values(), key=lambda m: m.rel):
        if not mi.rel.startswith(package):
            continue
        for q, ci in sorted(mi.classes.items()):
            init = ci.methods.get("__init__")
            if init is None:
                continue
            params = [p for p in func_params(init)[1:] if p != "parent"]
            for p in params:
                n += 1
                probs = []
                for st in walk_no_nested(init):
                    if isinstance(st, ast.Assign) and len(st.targets) == 1 and isinstance(st.targets[0], ast.Name) and st.targets[0].id == p:
                        v = st.value
                        if isinstance(v, ast.Attribute) and isinstance(v.value, ast.Name) and v.value.id == p and v.attr not in ("asList", "as_list"):
                            probs.append(f"line {st.lineno}: `{unparse(st)}` replaces the value by one of its parts")
                    if isinstance(st, (ast.Assign, ast.AnnAssign)) and st.value is not None:
                        tg = st.targets if isinstance(st, ast.Assign) else [st.target]
                        if not any(isinstance(t, ast.Attribute) and isinstance(t.value, ast.Name) and t.value.id == "self" for t in tg):
                            continue
                        for b in ast.walk(st.value):
                            if isinstance(b, ast.BoolOp) and isinstance(b.op, ast.Or) and any(isinstance(x, ast.Name) and x.id == p for x in b.values[:-1]):
                                last = b.values[-1]
                                if isinstance(last, ast.Constant) and last.value not in ("", None, 0, False):
                                    probs.append(f"line {st.lineno}: `{unparse(st.value)[:50]}` stores {last.value!r} where the text wrote nothing")
                            if isinstance(b, ast.IfExp) and any(isinstance(x, ast.Name) and x.id == p for x in ast.walk(b.test)):
                                for arm in (b.body, b.orelse):
                                    if isinstance(arm, ast.Constant) and arm.value not in ("", None, 0, False) and isinstance(arm.value, str):
                                        probs.append(f"line {st.lineno}: `{unparse(st.value)[:50]}` stores {arm.value!r} on one branch")
                rep.add(rid, f"as given:{q}.__init__:{p}", not probs,
                        f"{probs[:2]}: the tree then says something the interface file does not (a flag that was not written, a type without its markers)",
                        f"{mi.rel}:{init.lineno}", nontrivial=bool(probs))
    if n < min_params:
        raise AnalysisError(f"{rep.prop}/{rid}: only {n} constructor parameters of parser nodes found")


# ------------------------------------------------------------------------------------------ G19 node constructors by evaluation
def rule_nodes_hold_what_was_written(ctx, rep: Report, rid="G19"):
    """Two node constructors run by the analyser's interpreter on what the grammar hands them.  Namespace.__init__ keeps every
    element of its block, in order, repeats included (a class forward-declared twice - the second time with `virtual` and a
    base - is two declarations; dropping the 'repeat' loses the base).  CustomType.__init__ stores the qualified name exactly as
    written: `std::string` stays `std::string` (its spelling elsewhere - instantiation lists, bases, typedef targets - does not go
    through this constructor, so a canonical form applied here makes the tree disagree with itself).  The qualified names tried
    include every `a::b` string literal the constructor mentions."""
    from .rules_matlab import SampleObj, _PathEval, _Raised, mini_exec, program_classes
    prog = ctx.prog
    classes = program_classes(prog, ["Typename", "Namespace", "CustomType", "ForwardDeclaration"])
    ran = 0
    # ---- Namespace
    ns_ci = prog.cls("Namespace")
    fn = ns_ci.methods.get("__init__")
    ps = func_params(fn) if fn is not None else []
    loc = f"{ns_ci.mod.rel}:{fn.lineno if fn is not None else 0}"
    if fn is None or ps[:3] != ["self", "name", "content"]:
        raise AnalysisError(f"{rep.prop}/{rid}: Namespace.__init__(self, name, content, ...) not found")

    def tn(name, ns=()):
        return SampleObj(__kind__="Typename", name=name, namespaces=list(ns), instantiations=[], __complete__=True)

    def fwd(name, ns=(), virtual="", base=""):
        return SampleObj(__kind__="ForwardDeclaration", name=name, typename=tn(name, ns), is_virtual=virtual, parent_type=base, parent="")
    a1, a2, a3 = fwd("Factor", ["other"]), fwd("Factor", ["other"], "virtual", tn("Base", ["other"])), fwd("Factor", ["other"])
    k1 = SampleObj(__kind__="Class", name="K", parent="")
    k2 = SampleObj(__kind__="Class", name="K", parent="")
    inc = SampleObj(__kind__="Include", header="a.h", parent="")
    content = [a1, inc, k1, a2, SampleObj(__kind__="Include", header="a.h", parent=""), k2, a3]
    fns_ = dict(ns_ci.mod.functions)
    try:
        me = SampleObj(__kind__="Namespace")
        env = {ps[0]: me, ps[1]: "ns", ps[2]: list(content)}
        for p_, d_ in zip(ps[len(ps) - len(fn.args.defaults):], fn.args.defaults):
            env.setdefault(p_, ast.literal_eval(d_))
        mini_exec(fn, env, budget=20000, classes=classes, functions=fns_, methods=dict(ns_ci.methods))
        got = me.get("content")
        ran += 1
        same = isinstance(got, list) and len(got) == len(content) and all(x is y for x, y in zip(got, content))
        rep.add(rid, "Namespace.__init__:every element of the block is kept, in order, repeats included", same,
                f"a block with 7 elements - `class other::Factor;` three times (once with `virtual` and a base), an include twice, two classes of one name - "
                f"leaves {len(got) if isinstance(got, list) else got} element(s): a declaration the file makes is missing from the tree", loc)
    except (_PathEval.Unknown, _Raised, TypeError, KeyError, IndexError, AttributeError) as ex:
        raise AnalysisError(f"{rep.prop}/{rid}: Namespace.__init__ could not be evaluated ({str(ex)[:70]})")
    # ---- CustomType
    ct_ci = prog.cls("CustomType")
    fn = ct_ci.methods.get("__init__")
    ps = func_params(fn) if fn is not None else []
    loc = f"{ct_ci.mod.rel}:{fn.lineno if fn is not None else 0}"
    if fn is None or len(ps) != 2:
        raise AnalysisError(f"{rep.prop}/{rid}: CustomType.__init__(self, t) not found")
    names = [["gtsam", "Pose3"], ["string"], ["std", "string"], ["std", "vector"], ["Matrix"], ["gtsam", "noiseModel", "Base"]]
    for mname, mfn in ct_ci.methods.items():
        for c in ast.walk(mfn):
            if isinstance(c, ast.Constant) and isinstance(c.value, str) and re.fullmatch(r"[A-Za-z_]\w*(::[A-Za-z_]\w*)+", c.value):
                names.append(c.value.split("::"))
    probs = []
    try:
        for parts in names:
            me = SampleObj(__kind__="CustomType")
            mini_exec(fn, {ps[0]: me, ps[1]: list(parts)}, budget=20000, classes=classes, functions=dict(ct_ci.mod.functions))
            t = me.get("typename")
            ran += 1
            spelled = list(t.get("namespaces") or []) + [t.get("name")] if isinstance(t, dict) else None
            if spelled != parts:
                probs.append(f"`{'::'.join(parts)}` is stored as `{'::'.join(map(str, spelled)) if spelled else t}`")
    except (_PathEval.Unknown, _Raised, TypeError, KeyError, IndexError, AttributeError) as ex:
        raise AnalysisError(f"{rep.prop}/{rid}: CustomType.__init__ could not be evaluated ({str(ex)[:70]})")
    rep.add(rid, "CustomType.__init__:the qualified name is stored as written", not probs,
            f"{probs[:3]}: the tree names another type than the interface file (and than the same spelling in an instantiation list or a base class)", loc)
    rep.units["node_constructor_runs"] = ran
