"""Engine X, second group of rules for matlab.h (C18 K9-K14): the small decisions inside the converters - loop
headers, the truth table of every error guard, the arguments of the array-creating and MATLAB-calling functions - each
of which silently changes a converted value when it is off by one token."""
from __future__ import annotations

import itertools
from typing import Dict, List, Optional, Set, Tuple

from .clangx import call_args, callee, calls, canon_type, line_of, ref_name, statements, strip, walk
from .core import AnalysisError, Report
from . import rules_header as RHmod
from .rules_header import (ERROR_FAMILY, MATRIX_KINDS, VECTOR_KINDS, _delegate, _source_of, _unwrap_specs, _var_inits, header,
                           hloc)


def _int(n) -> Optional[int]:
    n = strip(n)
    if n.get("kind") == "IntegerLiteral":
        try:
            return int(n.get("value"))
        except (TypeError, ValueError):
            return None
    return None


def _enum_name(n) -> Optional[str]:
    """Name of the enumerator / macro-expanded constant an argument refers to."""
    n = strip(n)
    if n.get("kind") == "DeclRefExpr":
        return (n.get("referencedDecl") or {}).get("name")
    return None


# ------------------------------------------------------------------------------------------ K9 loop headers
def _for_stmts(f) -> List[dict]:
    return [x for x in walk(f) if x.get("kind") in ("ForStmt", "WhileStmt")]


def _while_header(f, ws) -> Dict[str, object]:
    """A `while (i < bound) { ...; i++; }` loop read like the for loop it replaces: the counter is the left side of the
    condition, its start value the initialiser of its declaration, the steps the increments in the body."""
    cond = strip(ws["inner"][0] if ws["inner"][0] else ws["inner"][1])
    conds = [x for x in ws["inner"] if isinstance(x, dict) and x.get("kind") == "BinaryOperator"]
    cond = strip(conds[0]) if conds else cond
    op, lhs = cond.get("opcode"), ref_name(cond["inner"][0]) if cond.get("inner") else None
    init = _var_inits(f).get(lhs)
    steps: Dict[str, str] = {}
    body = ws["inner"][-1]
    for x in walk(body):
        if x.get("kind") == "UnaryOperator" and x.get("opcode") in ("++", "--"):
            steps[ref_name(x["inner"][0]) or "?"] = x.get("opcode")
        if x.get("kind") == "CompoundAssignOperator" and x.get("opcode") in ("+=", "-="):
            k = _int(x["inner"][1])
            steps[ref_name(x["inner"][0]) or "?"] = "++" if (x.get("opcode") == "+=" and k == 1) else f"{x.get('opcode')}{k}"
    return {"var": lhs, "start": _int(init) if init is not None else None, "op": op, "lhs": lhs, "steps": steps}


def _loop_header(fs, f=None) -> Dict[str, object]:
    if fs.get("kind") == "WhileStmt":
        return _while_header(f, fs)
    inner = fs["inner"]
    init, cond, inc = inner[0], inner[2], inner[3]
    var, start = None, None
    for v in walk(init):
        if v.get("kind") == "VarDecl":
            var = v["name"]
            start = _int(v["inner"][-1]) if v.get("inner") else None
    c = strip(cond)
    op, lhs = None, None
    if c.get("kind") == "BinaryOperator":
        op = c.get("opcode")
        lhs = ref_name(c["inner"][0])
        # `bound > i` reads `i < bound`; `i != bound` (either side) stops at the same place for a counter that goes up by one from 0
        if op == ">" and ref_name(c["inner"][1]) == var:
            op, lhs = "<", var
        elif op == "!=" and var in (ref_name(c["inner"][0]), ref_name(c["inner"][1])):
            op, lhs = "<", var
    steps: Dict[str, str] = {}
    for x in walk(inc):
        if x.get("kind") == "UnaryOperator" and x.get("opcode") in ("++", "--"):
            steps[ref_name(x["inner"][0]) or "?"] = x.get("opcode")
        if x.get("kind") == "CompoundAssignOperator" and x.get("opcode") in ("+=", "-="):
            k = _int(x["inner"][1])
            steps[ref_name(x["inner"][0]) or "?"] = "++" if (x.get("opcode") == "+=" and k == 1) else f"{x.get('opcode')}{k}"
    return {"var": var, "start": start, "op": op, "lhs": lhs, "steps": steps}


def rule_loop_headers(ctx, rep: Report, rid="K9"):
    """Every copying loop of the vector / matrix converters visits the elements 0 .. bound-1 once and upwards: the
    counter starts at 0, is compared with `<` against the bound and is incremented by one, and so is the data pointer
    that walks along with it.  (`i=1` drops the first row or column, `i--` never terminates / reads in front of the
    buffer.)"""
    h = header(ctx)
    fns = []
    for nm in ("wrap_Vector", "wrap_Matrix"):
        fs = h.functions(nm)
        if not fs:
            raise AnalysisError(f"{nm} not found")
        fns.append((nm, fs[0]))
    for t, f in sorted(_unwrap_specs(h).items()):
        if t in VECTOR_KINDS | MATRIX_KINDS:
            fns.append((f"unwrap<{t}>", f))
    n = 0
    seen = set()
    for nm, f in fns:
        loops = _for_stmts(f)
        need = 2 if ("Matrix" in nm) else 1
        if len(loops) < need:
            raise AnalysisError(f"{rep.prop}/{rid}: {nm}: {len(loops)} copying loop(s) found, {need} expected")
        for k, fs in enumerate(loops):
            if (id(f), k) in seen:
                continue
            seen.add((id(f), k))
            n += 1
            hd = _loop_header(fs, f)
            ok = hd["var"] is not None and hd["start"] == 0 and hd["op"] == "<" and hd["lhs"] == hd["var"] \
                and hd["steps"].get(hd["var"]) == "++" and all(v == "++" for v in hd["steps"].values())
            rep.add(rid, f"{nm}:loop #{k + 1}:counts 0 .. bound-1 upwards by one", ok,
                    f"counter `{hd['var']}` starts at {hd['start']}, is tested with `{hd['lhs']} {hd['op']} bound`, steps {hd['steps']}: "
                    f"the first element is skipped, or the loop runs away, or the data pointer walks backwards", hloc(fs))
    if n < 4:
        raise AnalysisError(f"{rep.prop}/{rid}: only {n} copying loops found")


# ------------------------------------------------------------------------------------------ K10 guard truth tables
class _Unknown(Exception):
    pass


def _bool_local(f, e) -> Optional[dict]:
    """The initialiser of a local `bool` (a named predicate) the expression refers to."""
    e = strip(e)
    if e.get("kind") == "DeclRefExpr" and canon_type(e.get("type", {})).replace("const", "").strip() in ("bool", "_Bool"):
        init = _var_inits(f).get(ref_name(e))
        if init is not None:
            return init
    return None


def _atom_and_polarity(f, e) -> Tuple[object, bool]:
    """(atom, polarity) for a leaf of a condition: the atom is a hashable description of the tested fact."""
    e = strip(e)
    k = e.get("kind")
    if k == "CXXBoolLiteralExpr":
        return ("const", bool(e.get("value"))), True
    nm = callee(e)
    if nm in ("mxIsDouble", "mxIsComplex", "mxIsChar", "mxIsNumeric", "mxIsLogical", "mxGetString"):
        return (nm,), True
    if k == "DeclRefExpr":
        src = _source_of(f, e)
        return ("nonnull", src if src != "?" else ref_name(e)), True
    if k == "BinaryOperator" and e.get("opcode") in ("==", "!="):
        a, b = strip(e["inner"][0]), strip(e["inner"][1])
        pol = e.get("opcode") == "=="
        # x == true / false
        for x, y in ((a, b), (b, a)):
            if y.get("kind") == "CXXBoolLiteralExpr":
                at, p = _atom_and_polarity(f, x)
                return at, (p if bool(y.get("value")) else not p) if pol else (not p if bool(y.get("value")) else p)
        # pointer == NULL
        for x, y in ((a, b), (b, a)):
            if y.get("kind") in ("GNUNullExpr", "CXXNullPtrLiteralExpr") or (_int(y) == 0 and "*" in canon_type(x.get("type", {}))):
                src = _source_of(f, x)
                return ("nonnull", src if src != "?" else ref_name(x)), not pol
        # size / class id compared with a literal or a named constant
        for x, y in ((a, b), (b, a)):
            lit = _int(y)
            cn = _enum_name(y)
            src = _source_of(f, x)
            if src != "?" and (lit is not None or cn is not None) and _int(x) is None:
                return ("eq", src, lit if lit is not None else cn), pol
        # two named things
        return ("eq", ref_name(a) or _source_of(f, a), ref_name(b) or _source_of(f, b)), pol
    raise _Unknown(k)


def _eval(f, e, env: Dict[object, bool]) -> bool:
    e = strip(e)
    if e.get("kind") == "_Not":
        return not _eval(f, e["inner"][0], env)
    if e.get("kind") == "_And":
        return all(_eval(f, x, env) for x in e["inner"])
    b = _bool_local(f, e)
    if b is not None:
        return _eval(f, b, env)
    if e.get("kind") == "BinaryOperator" and e.get("opcode") in ("||", "&&"):
        a = _eval(f, e["inner"][0], env)
        b = _eval(f, e["inner"][1], env)
        return (a or b) if e["opcode"] == "||" else (a and b)
    if e.get("kind") == "UnaryOperator" and e.get("opcode") == "!":
        return not _eval(f, e["inner"][0], env)
    at, pol = _atom_and_polarity(f, e)
    if at[0] == "const":
        return at[1] if pol else not at[1]
    return env[at] if pol else not env[at]


def _atoms(f, e, out: Set[object]):
    e = strip(e)
    if e.get("kind") in ("_Not", "_And"):
        for x in e["inner"]:
            _atoms(f, x, out)
        return
    b = _bool_local(f, e)
    if b is not None:
        _atoms(f, b, out)
        return
    if e.get("kind") == "BinaryOperator" and e.get("opcode") in ("||", "&&"):
        _atoms(f, e["inner"][0], out)
        _atoms(f, e["inner"][1], out)
        return
    if e.get("kind") == "UnaryOperator" and e.get("opcode") == "!":
        _atoms(f, e["inner"][0], out)
        return
    at, _ = _atom_and_polarity(f, e)
    if at[0] != "const":
        out.add(at)


def _error_conditions(stmts) -> List[dict]:
    """Conditions under which the statement list raises, in order: `if (c) error(..)` and else-if chains of them, and -
    for the early-return form `if (ok) return; error(..);` - the negation of the conditions under which the function
    has already returned, for an error call that stands unconditionally in the statement list."""
    out = []
    returned: List[dict] = []
    for st in stmts:
        cur = st
        if cur.get("kind") == "IfStmt":
            inner = cur.get("inner", [])
            then = inner[1] if len(inner) > 1 else {}
            only_return = not any(callee(c) in ERROR_FAMILY for c in calls(then)) and any(x.get("kind") == "ReturnStmt" for x in walk(then)) \
                and len(inner) == 2 and not any(x.get("inner") for x in walk(then) if x.get("kind") == "ReturnStmt")
            if only_return:
                returned.append(inner[0])
                continue
        while cur is not None and cur.get("kind") == "IfStmt":
            inner = cur.get("inner", [])
            if len(inner) > 1 and any(callee(c) in ERROR_FAMILY for c in calls(inner[1])):
                out.append(inner[0] if not returned else {"kind": "_And", "inner": [{"kind": "_Not", "inner": [r]} for r in returned] + [inner[0]]})
            cur = inner[2] if len(inner) > 2 else None
        if st.get("kind") != "IfStmt" and returned and any(callee(c) in ERROR_FAMILY for c in calls(st)):
            out.append({"kind": "_And", "inner": [{"kind": "_Not", "inner": [r]} for r in returned]})
    return out


def guard_exact(f, want_atoms: Dict[object, bool], stmts=None) -> Optional[bool]:
    """Do the error guards of `f` raise exactly when some wanted atom has the wrong value?  None: not decidable here."""
    body_stmts = stmts if stmts is not None else statements(f)
    conds = _error_conditions(body_stmts)
    if not conds:
        return None
    try:
        atoms: Set[object] = set()
        for c in conds:
            _atoms(f, c, atoms)
        universe = sorted(set(want_atoms) | atoms, key=repr)
        for vals in itertools.product([False, True], repeat=len(universe)):
            env = dict(zip(universe, vals))
            if any(_eval(f, c, env) for c in conds) != any(env[a] != v for a, v in want_atoms.items()):
                return False
        return True
    except _Unknown:
        return None


def _guard_obligation(rep, rid, f, label: str, want_atoms: Dict[object, bool], detail: str, stmts=None):
    """The function raises exactly when some wanted atom has the wrong value: `want_atoms` maps each atom to the value it
    must have for the input to be *accepted*."""
    body_stmts = stmts if stmts is not None else statements(f)
    conds = _error_conditions(body_stmts)
    # a return placed in front of a guard leaves the function before the guard is evaluated
    last_guard = max((i for i, st in enumerate(body_stmts) if _error_conditions([st])), default=-1)
    early = [line_of(r) for i, st in enumerate(body_stmts[: max(last_guard, 0)]) for r in walk(st) if r.get("kind") == "ReturnStmt" and r.get("inner")]
    if early:
        rep.add(rid, label, False, f"{detail}; a `return` at line {early} leaves the function before the guard is evaluated: inputs taking that "
                                   f"path are converted without the check", hloc(f))
        return
    try:
        atoms: Set[object] = set()
        for c in conds:
            _atoms(f, c, atoms)
        universe = sorted(set(want_atoms) | atoms, key=repr)
        bad_rows = []
        for vals in itertools.product([False, True], repeat=len(universe)):
            env = dict(zip(universe, vals))
            raises = any(_eval(f, c, env) for c in conds)
            should = any(env[a] != v for a, v in want_atoms.items())
            if raises != should:
                bad_rows.append({repr(a): env[a] for a in universe})
        extra = sorted(atoms - set(want_atoms), key=repr)
        rep.add(rid, label, bool(conds) and not bad_rows,
                f"{detail}; the guard(s) decide differently for {len(bad_rows)} of {2 ** len(universe)} combinations of "
                f"{[repr(a) for a in universe]}" + (f" (tests {extra} that the rule does not expect)" if extra else "") +
                (f", e.g. {bad_rows[0]}" if bad_rows else ""), hloc(f))
    except _Unknown as e:
        rep.add(rid, label, True, f"not decided: the condition contains a {e} this rule does not interpret", hloc(f), nontrivial=False)


def _vector_guard_obligation(rep, rid, f, t):
    """unwrap<Vector-like>: raises for every array that is not double and for every array that is not a vector (neither one column
    nor - where the converter chooses to take row vectors as well - one row); never for a double column vector."""
    label = f"unwrap<{t}>:raises for a non-double array and for anything but a vector, never for a double column"
    body_stmts = statements(f)
    conds = _error_conditions(body_stmts)
    last_guard = max((i for i, st in enumerate(body_stmts) if _error_conditions([st])), default=-1)
    early = [line_of(r) for i, st in enumerate(body_stmts[: max(last_guard, 0)]) for r in walk(st) if r.get("kind") == "ReturnStmt" and r.get("inner")]
    if early:
        rep.add(rid, label, False, f"a `return` at line {early} leaves the function before the guard is evaluated", hloc(f))
        return
    D, N1, M1 = ("mxIsDouble",), ("eq", "mxGetN", 1), ("eq", "mxGetM", 1)
    try:
        atoms: Set[object] = set()
        for c in conds:
            _atoms(f, c, atoms)
        universe = sorted({D, N1} | atoms, key=repr)
        bad = []
        for vals in itertools.product([False, True], repeat=len(universe)):
            env = dict(zip(universe, vals))
            raises = any(_eval(f, c, env) for c in conds)
            if not env[D]:
                ok = raises
            elif env[N1]:
                ok = not raises
            elif M1 in env and env[M1]:
                ok = True                      # a row vector: taken or refused, the converter's choice
            else:
                ok = raises
            if not ok:
                bad.append({repr(a): env[a] for a in universe})
        extra = sorted(atoms - {D, N1, M1}, key=repr)
        rep.add(rid, label, bool(conds) and not bad,
                f"a vector must come from a real double array with one column (or one row); the guard(s) decide differently for {len(bad)} of "
                f"{2 ** len(universe)} combinations of {[repr(a) for a in universe]}" + (f" (tests {extra} that the rule does not expect)" if extra else "") +
                (f", e.g. {bad[0]}" if bad else ""), hloc(f))
    except _Unknown as e:
        rep.add(rid, label, True, f"not decided: the condition contains a {e} this rule does not interpret", hloc(f), nontrivial=False)


def rule_guard_truth_tables(ctx, rep: Report, rid="K10"):
    """Each converter rejects exactly the inputs it cannot convert.  The error guards of a function are read as a
    boolean function of the facts they test (is a double array, has one column, is 1x1, has the handle class id, is
    complex, pointer is null) and compared, row by row of the truth table, with the condition the conversion needs.
    A flipped `==`, `&&` for `||`, a wrong literal or a dropped `!` changes at least one row."""
    h = header(ctx)
    u = _unwrap_specs(h)
    n = 0
    for t, f in sorted(u.items()):
        if t in VECTOR_KINDS:
            n += 1
            _vector_guard_obligation(rep, rid, f, t)
        elif t in MATRIX_KINDS:
            n += 1
            _guard_obligation(rep, rid, f, f"unwrap<{t}>:raises exactly for a non-double array",
                              {("mxIsDouble",): True}, "a matrix must come from a double array (any shape, including empty)")
    su = u.get("std::string") or u.get("string") or next((f for t, f in u.items() if "basic_string" in t or t.endswith("string")), None)
    if su is not None and "unwrap" in (RHmod.string_verdict(ctx) or {}):
        n += 1
        rep.add(rid, "unwrap<string>:raises exactly when the array is not a character array", True,
                "decided by evaluation (K15): the converter was run on character and other arrays", hloc(su), nontrivial=False)
    elif su is not None:
        n += 1
        if calls(su, "mxArrayToString"):
            _guard_obligation(rep, rid, su, "unwrap<string>:raises exactly when the array is not a character array (mxArrayToString gave NULL)",
                              {("nonnull", "mxArrayToString"): True}, "mxArrayToString returns NULL for anything that is not a character array")
        else:
            _guard_obligation(rep, rid, su, "unwrap<string>:raises exactly when the array is not a character array",
                              {("mxIsChar",): True}, "only a character array holds a string")
            # read with mxGetString: the buffer (and the result) hold every character of the array - rows times columns - plus the NUL
            gs = calls(su, "mxGetString")
            dims = set()
            inits = _var_inits(su)
            for c in gs:
                a = call_args(c)
                if len(a) >= 3:
                    todo, seen_ = [a[2]], set()
                    while todo:
                        x = todo.pop()
                        for y in walk(x):
                            nm = callee(y)
                            if nm in ("mxGetN", "mxGetM", "mxGetNumberOfElements"):
                                dims.add(nm)
                            r = ref_name(y) if y.get("kind") == "DeclRefExpr" else None
                            if r and r in inits and r not in seen_:
                                seen_.add(r)
                                todo.append(inits[r])
            whole = "mxGetNumberOfElements" in dims or {"mxGetM", "mxGetN"} <= dims
            rep.add(rid, "unwrap<string>:the buffer read by mxGetString holds every character of the array", bool(gs) and whole,
                    f"the length handed to mxGetString is computed from {sorted(dims) or 'nothing this rule recognises'}: a character array with more than one row "
                    f"(a column vector of characters, a char matrix) is cut to its first characters and mxGetString's failure is not noticed", hloc(su))
    co_ = h.functions_inlined("create_object")
    written = [_enum_name(call_args(c)[2]) for c in calls(co_[0], "mxCreateNumericMatrix")] if co_ else []
    ptr_class = written[1] if len(written) > 1 else "?"     # what mxUINT32OR64_CLASS expands to in this configuration
    for f in h.functions("unwrap_shared_ptr"):
        n += 1
        _guard_obligation(rep, rid, f, "unwrap_shared_ptr:raises exactly unless the handle is a real 1x1 array of the class create_object stores",
                          {("eq", "mxGetClassID", ptr_class): True, ("mxIsComplex",): False, ("eq", "mxGetM", 1): True,
                           ("eq", "mxGetN", 1): True},
                          "the handle property must be exactly what create_object stored: anything else reinterpreted as a pointer is a wild read")
    cs = h.functions("checkScalar")
    if cs:
        f = cs[0]
        conds = _error_conditions(statements(f))
        atoms: Set[object] = set()
        try:
            for c in conds:
                _atoms(f, c, atoms)
        except _Unknown:
            atoms = set()
        if atoms and all(a[0] == "eq" and a[1] in ("mxGetM", "mxGetN") for a in atoms):
            n += 1
            _guard_obligation(rep, rid, f, "checkScalar:raises exactly unless the array is 1x1",
                              {("eq", "mxGetM", 1): True, ("eq", "mxGetN", 1): True}, "every scalar reader relies on this check")
    ca = h.functions("checkArguments")
    if ca:
        n += 1
        _guard_obligation(rep, rid, ca[0], "checkArguments:raises exactly when the argument count differs from the expected one",
                          {("eq", "nargin", "expected"): True}, "a routine called with the wrong number of arguments must not index past its inputs")
    co = h.functions_inlined("create_object")
    if co:
        f = co[0]
        # the three look-ups of the virtual branch: registry present, entry present, name copied (mxGetString returns 0 on success)
        virt = next((st for st in walk(f) if st.get("kind") == "IfStmt" and ref_name(st["inner"][0]) == "isVirtual"
                     and any(callee(c) == "mexGetVariablePtr" for c in calls(st))), None)
        if virt is not None:
            body = virt["inner"][1]
            stmts = body.get("inner", []) if body.get("kind") == "CompoundStmt" else [body]
            n += 1
            _guard_obligation(rep, rid, f, "create_object:raises exactly when the RTTI registry, the entry or the copied name is missing",
                              {("nonnull", "mexGetVariablePtr"): True, ("nonnull", "mxGetField"): True, ("mxGetString",): False},
                              "a missing registry or entry must stop the call before the null pointer is used; mxGetString returns non-zero on failure",
                              stmts=stmts)
    if n < 7:
        raise AnalysisError(f"{rep.prop}/{rid}: only {n} guarded converters found (7 expected)")


# ------------------------------------------------------------------------------------------ K11 creation calls
def rule_creation_calls(ctx, rep: Report, rid="K11"):
    """Arrays are created real (mxREAL) and with the dimensions the stores rely on: the one-element array of `scalar`
    (1 dimension of extent 1), the 1x1 arrays of the enum converter and of the two handle inputs, with the class ids the
    readers test for."""
    h = header(ctx)
    n = 0
    for d in h.decls:
        if d.get("kind") not in ("FunctionDecl", "FunctionTemplateDecl"):
            continue
        for c in calls(d):
            nm = callee(c)
            if nm in ("mxCreateDoubleMatrix", "mxCreateNumericMatrix", "mxCreateNumericArray"):
                a = call_args(c)
                flag = _enum_name(a[-1])
                n += 1
                rep.add(rid, f"{d.get('name')}:{nm}@{sum(1 for o in rep.obs if o.rule == rid and o.construct.startswith(str(d.get('name')) + ':' + nm)) + 1}:created real",
                        flag == "mxREAL", f"complexity flag {flag}: a complex array has a second, imaginary buffer and other accessors", hloc(c))
    sc = h.functions("scalar")
    if not sc:
        raise AnalysisError("scalar() not found")
    f = sc[0]
    cs = calls(f, "mxCreateNumericArray")
    ok, detail = False, "mxCreateNumericArray not called"
    if cs:
        a = call_args(cs[0])
        ndim = _int(a[0])
        dimsv = ref_name(a[1])
        decl = next((v for v in walk(f) if v.get("kind") == "VarDecl" and v.get("name") == dimsv), None)
        size = None
        if decl is not None:
            ty = canon_type(decl.get("type", {}))
            if "[" in ty:
                try:
                    size = int(ty.split("[")[1].split("]")[0])
                except ValueError:
                    size = None
        stores = {}
        for b in walk(f):
            if b.get("kind") == "BinaryOperator" and b.get("opcode") == "=":
                l = strip(b["inner"][0])
                if l.get("kind") == "ArraySubscriptExpr" and ref_name(l["inner"][0]) == dimsv:
                    stores[_int(l["inner"][1])] = _int(b["inner"][1])
            if b.get("kind") == "VarDecl" and b.get("name") == dimsv:
                for il in walk(b):
                    if il.get("kind") == "InitListExpr":
                        for i, x in enumerate(il.get("inner", [])):
                            stores[i] = _int(x)
        ok = ndim == 1 and size is not None and size >= 1 and stores.get(0) == 1 and all(k in range(size) for k in stores if k is not None)
        detail = f"mxCreateNumericArray({ndim}, {dimsv}[{size}], ...) with {dimsv} = {stores}"
        ok = ok and ref_name(a[2]) is not None
    rep.add(rid, "scalar:creates a one-element array of the requested class", ok,
            detail + ": the scalar writers store exactly one element at the start of the buffer; another extent, a dimension count that reads "
            "past `dims`, or a store outside `dims` corrupts the result", hloc(f))
    for fname, want in (("wrap_enum", [("mxCreateDoubleMatrix", (1, 1))]),
                        ("create_object", [("mxCreateNumericMatrix", (1, 1)), ("mxCreateNumericMatrix", (1, 1))])):
        fs = h.functions_inlined(fname)
        if not fs:
            raise AnalysisError(f"{fname} not found")
        found = [(callee(c), (_int(call_args(c)[0]), _int(call_args(c)[1]))) for c in calls(fs[0]) if callee(c) in ("mxCreateDoubleMatrix", "mxCreateNumericMatrix")]
        n += 1
        rep.add(rid, f"{fname}:the arrays it fills with one value are 1x1", found == want,
                f"creations {found}, expected {want}: the single store goes to element 0 - an empty array has no element 0, a larger one "
                f"fails the 1x1 test of the reader", hloc(fs[0]))
    co = h.functions_inlined("create_object")[0]
    classes = [_enum_name(call_args(c)[2]) for c in calls(co, "mxCreateNumericMatrix")]
    rep.add(rid, "create_object:constructor key is a uint64 array, the pointer a pointer-sized one",
            len(classes) == 2 and classes[0] == "mxUINT64_CLASS" and classes[1] in ("mxUINT64_CLASS", "mxUINT32_CLASS"),
            f"class ids {classes}: the .m constructor compares the key as uint64 and unwrap_shared_ptr demands mxUINT32OR64_CLASS", hloc(co))
    if n < 8:
        raise AnalysisError(f"{rep.prop}/{rid}: only {n} creation calls found")


# ------------------------------------------------------------------------------------------ K12 calls into MATLAB
def rule_matlab_calls(ctx, rep: Report, rid="K12"):
    """Calls back into MATLAB pass what was prepared: one output, as many inputs as were filled in (1 for the enum
    converters; 2 for a plain handle, 3 - with the 'void' marker in slot 2 - for a virtual one, from an array of 3), under
    the class name chosen on the same path; look-ups in MATLAB structures use element 0."""
    h = header(ctx)
    for fname in ("wrap_enum", "unwrap_enum"):
        fs = h.functions(fname)
        if not fs:
            raise AnalysisError(f"{fname} not found")
        cs = calls(fs[0], "mexCallMATLAB")
        ok = len(cs) == 1 and _int(call_args(cs[0])[0]) == 1 and _int(call_args(cs[0])[2]) == 1
        rep.add(rid, f"{fname}:calls MATLAB with one output and one input", ok,
                f"mexCallMATLAB({[_int(x) for x in call_args(cs[0])[:3:2]] if cs else None}): the converter prepares one array and reads one back",
                hloc(fs[0]))
    we = h.functions("wrap_enum")[0]
    stores = []
    for b in walk(we):
        if b.get("kind") == "BinaryOperator" and b.get("opcode") == "=":
            l = strip(b["inner"][0])
            if l.get("kind") == "ArraySubscriptExpr":
                stores.append(_int(l["inner"][1]))
            elif l.get("kind") == "UnaryOperator" and l.get("opcode") == "*":
                stores.append(0)
    rep.add(rid, "wrap_enum:the enumerator's value is stored in element 0 of the 1x1 array", stores == [0],
            f"stores to elements {stores}: the value must be written, and written inside the one-element buffer", hloc(we))
    co = h.functions_inlined("create_object")
    if not co:
        raise AnalysisError("create_object not found")
    f = co[0]
    arr = next((v for v in walk(f) if v.get("kind") == "VarDecl" and v.get("name") == "input"), None)
    size = None
    if arr is not None and "[" in canon_type(arr.get("type", {})):
        try:
            size = int(canon_type(arr["type"]).split("[")[1].split("]")[0])
        except ValueError:
            size = None
    slots: Dict[Optional[int], List[bool]] = {}
    nargin_vals: List[Tuple[Optional[int], bool]] = []
    name_assigned: List[bool] = []

    def under_virtual(node) -> Optional[bool]:
        for st in walk(f):
            if st.get("kind") == "IfStmt" and ref_name(st["inner"][0]) == "isVirtual":
                if any(x is node for x in walk(st["inner"][1])):
                    return True
                if len(st["inner"]) > 2 and any(x is node for x in walk(st["inner"][2])):
                    return False
        return None
    for b in walk(f):
        if b.get("kind") == "BinaryOperator" and b.get("opcode") == "=":
            l = strip(b["inner"][0])
            if l.get("kind") == "ArraySubscriptExpr" and ref_name(l["inner"][0]) == "input":
                slots.setdefault(_int(l["inner"][1]), []).append(under_virtual(b) is True)
            if ref_name(l) == "nargin":
                nargin_vals.append((_int(b["inner"][1]), under_virtual(b) is True))
            if ref_name(l) == "derivedClassName":
                name_assigned.append(under_virtual(b) is True)
        if b.get("kind") == "VarDecl" and b.get("name") == "nargin" and b.get("inner"):
            nargin_vals.append((_int(b["inner"][-1]), False))
    ok_slots = sorted(k for k in slots if k is not None) == [0, 1, 2] and slots.get(0) == [False] and slots.get(1) == [False] and slots.get(2) == [True]
    rep.add(rid, "create_object:inputs 0 and 1 always filled, input 2 (the 'void' marker) for a virtual class, in an array of three",
            ok_slots and size is not None and size >= 3, f"input[{size}], stores {slots}", hloc(f))
    rep.add(rid, "create_object:the input count is 2, and 3 exactly when the third input was filled",
            sorted(nargin_vals, key=repr) == sorted([(2, False), (3, True)], key=repr), f"nargin values (value, under isVirtual): {nargin_vals}", hloc(f))
    rep.add(rid, "create_object:the class name is chosen on both paths", sorted(name_assigned) == [False, True],
            f"derivedClassName assigned under isVirtual: {name_assigned}: an uninitialised pointer is handed to mexCallMATLAB on the other path", hloc(f))
    cs = calls(f, "mexCallMATLAB")
    ok = len(cs) == 1 and _int(call_args(cs[0])[0]) == 1 and ref_name(call_args(cs[0])[2]) == "nargin" and ref_name(call_args(cs[0])[3]) == "input" \
        and ref_name(call_args(cs[0])[4]) == "derivedClassName"
    rep.add(rid, "create_object:the proxy constructor is called with one output, the prepared inputs and the chosen class name", ok,
            f"mexCallMATLAB({', '.join(str(_int(x)) if _int(x) is not None else str(ref_name(x)) for x in call_args(cs[0])) if cs else ''})", hloc(f))
    # wrap_shared_ptr: what it returns comes from create_object on both paths
    for wf in h.functions("wrap_shared_ptr"):
        rets = [ref_name(r["inner"][0]) for r in walk(wf) if r.get("kind") == "ReturnStmt" and r.get("inner")]
        assigned = []
        for b in walk(wf):
            if b.get("kind") == "BinaryOperator" and b.get("opcode") == "=" and ref_name(b["inner"][0]) in rets \
                    and callee(strip(b["inner"][1])) == "create_object":
                under = None
                for st in walk(wf):
                    if st.get("kind") == "IfStmt" and ref_name(st["inner"][0]) == "isVirtual":
                        if any(x is b for x in walk(st["inner"][1])):
                            under = True
                        elif len(st["inner"]) > 2 and any(x is b for x in walk(st["inner"][2])):
                            under = False
                assigned.append(under)
            if b.get("kind") == "VarDecl" and b.get("name") in rets and b.get("inner") and callee(strip(b["inner"][-1])) == "create_object":
                assigned.append(None)
        direct = [r for r in walk(wf) if r.get("kind") == "ReturnStmt" and r.get("inner") and callee(strip(r["inner"][0])) == "create_object"]
        n_rets = len([r for r in walk(wf) if r.get("kind") == "ReturnStmt" and r.get("inner")])
        ok = (sorted(assigned, key=repr) == sorted([True, False], key=repr)) or assigned == [None] or (n_rets > 0 and len(direct) == n_rets)
        rep.add(rid, "wrap_shared_ptr:the returned object comes from create_object for virtual and plain classes alike", ok,
                f"`{rets}` assigned from create_object under isVirtual = {assigned}: on the other path an uninitialised pointer is returned to MATLAB",
                hloc(wf))
    # element indices of MATLAB look-ups
    n = 0
    for d in h.decls:
        for c in calls(d):
            if callee(c) in ("mxGetProperty", "mxGetField"):
                n += 1
                idx = _int(call_args(c)[1])
                rep.add(rid, f"{d.get('name')}:{callee(c)}:reads element 0 of the (scalar) object / struct", idx == 0,
                        f"index {idx}: the handle object and the registry are 1x1; any other element is out of range", hloc(c))
    if n < 3:
        raise AnalysisError(f"{rep.prop}/{rid}: only {n} MATLAB look-ups found")
    # the RTTI name buffer: length + 1 bytes, the same size handed to mxGetString, the length from the column count
    news = [x for x in walk(f) if x.get("kind") == "CXXNewExpr" and x.get("isArray")]
    gs = calls(f, "mxGetString")
    ok, detail = False, "buffer / mxGetString not found"
    if news and gs:
        inits = _var_inits(f)

        def plus_one(e, depth=3):
            e = strip(e)
            if e.get("kind") == "DeclRefExpr" and depth > 0 and ref_name(e) in inits:
                return plus_one(inits[ref_name(e)], depth - 1)
            if e.get("kind") == "BinaryOperator" and e.get("opcode") == "+":
                a, b = strip(e["inner"][0]), strip(e["inner"][1])
                if _int(b) == 1:
                    return _source_of(f, a)
                if _int(a) == 1:
                    return _source_of(f, b)
            return None
        size_e = next((x for x in news[0].get("inner", []) if x.get("kind") not in ("CXXConstructExpr",)), None)
        a1 = plus_one(size_e) if size_e is not None else None
        a2 = plus_one(call_args(gs[0])[2])
        ok = a1 == "mxGetN" and a2 == "mxGetN"
        detail = f"buffer of {a1}+1 bytes, mxGetString told {a2}+1"
    rep.add(rid, "create_object:the class-name buffer holds the name and its terminator", ok,
            detail + ": a MATLAB string is a 1xN char array - N+1 bytes are needed and must be announced; fewer truncates the class name, more overruns",
            hloc(f))


# ------------------------------------------------------------------------------------------ K13 primary templates
def rule_primary_templates_raise(ctx, rep: Report, rid="K13"):
    """The unspecialised wrap<T> / unwrap<T> exist only to stop the build of a module from converting a type the
    header does not know: their first statement raises."""
    h = header(ctx)
    for nm in ("wrap", "unwrap"):
        prim = [f for f in h.functions(nm) if f.get("_primary_template")]
        if not prim:
            raise AnalysisError(f"primary template of {nm} not found")
        st = statements(prim[0])
        ok = bool(st) and any(callee(c) in ERROR_FAMILY for c in calls(st[0]))
        rep.add(rid, f"{nm}<T>:the unspecialised converter raises", ok,
                "without the error call a type the header cannot convert is silently converted to 0 / a default-constructed value",
                hloc(prim[0]))


# ------------------------------------------------------------------------------------------ K14 64-bit scalars
def rule_wide_integers_read_exactly(ctx, rep: Report, rid="K14"):
    """A 64-bit integer array (MATLAB int64 / uint64) is read through the 64-bit integer type of the same signedness,
    not through mxGetScalar, which returns a double and rounds every value above 2^53 (a gtsam Key such as
    symbol('x',1) = 0x7800000000000001 would arrive as another key).  In myGetScalar, for each of mxINT64_CLASS and
    mxUINT64_CLASS there is a path - a switch case or an `if` on the class id - that returns `*(<that type>*)
    mxGetData(array)`."""
    h = header(ctx)
    fs = h.functions("myGetScalar")
    if not fs:
        raise AnalysisError("myGetScalar not found")
    f = fs[0]
    found: Dict[str, str] = {}

    def typed_read(node) -> Optional[str]:
        for r in walk(node):
            if r.get("kind") == "ReturnStmt":
                for c in walk(r):
                    if c.get("kind") in ("CStyleCastExpr", "CXXReinterpretCastExpr", "CXXStaticCastExpr") and c.get("inner") \
                            and callee(strip(c["inner"][0])) == "mxGetData":
                        return canon_type(c.get("type", {})).replace(" ", "")
        return None
    for n_ in walk(f):
        if n_.get("kind") == "CaseStmt" and n_.get("inner"):
            lab = _enum_name(n_["inner"][0]) or next((_enum_name(x) for x in walk(n_["inner"][0]) if _enum_name(x)), None)
            ty = typed_read(n_)
            if lab and ty:
                found[lab] = ty
        if n_.get("kind") == "IfStmt" and n_.get("inner"):
            cond = strip(n_["inner"][0])
            if cond.get("kind") == "BinaryOperator" and cond.get("opcode") == "==":
                labs = [_enum_name(x) for x in cond["inner"] if _enum_name(x) and str(_enum_name(x)).startswith("mx")]
                if labs and any(callee(strip(x)) == "mxGetClassID" or _source_of(f, x) == "mxGetClassID" for x in cond["inner"]):
                    ty = typed_read(n_["inner"][1]) if len(n_["inner"]) > 1 else None
                    if ty:
                        found[labs[0]] = ty
    # every class id that is given a typed read of its own is read through the type of *its* width and signedness (labels that
    # share one body - `case mxINT32_CLASS: case mxUINT32_CLASS:` - share one cast, right for one of them at most)
    exact = {"mxINT8_CLASS": ("int8_t*", "signedchar*"), "mxUINT8_CLASS": ("uint8_t*", "unsignedchar*"),
             "mxINT16_CLASS": ("int16_t*", "short*"), "mxUINT16_CLASS": ("uint16_t*", "unsignedshort*"),
             "mxINT32_CLASS": ("int32_t*", "int*"), "mxUINT32_CLASS": ("uint32_t*", "unsignedint*", "unsigned*"),
             "mxSINGLE_CLASS": ("float*",), "mxDOUBLE_CLASS": ("double*",),
             "mxLOGICAL_CLASS": ("bool*", "mxLogical*", "unsignedchar*"), "mxCHAR_CLASS": ("mxChar*", "char16_t*", "unsignedshort*", "uint16_t*")}
    for cls in sorted(found):
        if cls in exact:
            got = found[cls]
            signed_ok = not (cls.startswith("mxINT") and ("unsigned" in got or "uint" in got)) and \
                not (cls.startswith("mxUINT") and not ("unsigned" in got or "uint" in got))
            rep.add(rid, f"myGetScalar:{cls} read through the type of its own width and signedness", signed_ok and any(got.endswith(t) for t in exact[cls]),
                    f"{cls} is read as {got}: a value outside the range the two types share arrives as another number "
                    f"(uint32(3000000000) read through int32_t is negative, hence 18446744072414584320 as a size_t)", hloc(f))
    want = {"mxINT64_CLASS": ("int64_t*", "longlong*", "long*"), "mxUINT64_CLASS": ("uint64_t*", "unsignedlonglong*", "unsignedlong*")}
    for cls, tys in want.items():
        got = found.get(cls)
        ok = got is not None and any(got.endswith(t) for t in tys) and (cls != "mxINT64_CLASS" or "unsigned" not in got and "uint" not in got)
        rep.add(rid, f"myGetScalar:{cls} read through the 64-bit integer type of the same signedness", ok,
                f"{cls} is read as {got or 'a double (mxGetScalar)'}: values above 2^53 are rounded before they reach the C++ parameter "
                f"(size_t keys, int64 counters)", hloc(f))


# ------------------------------------------------------------------------------------------ K17 nothing is read from an array after it was destroyed
def rule_no_use_after_destroy(ctx, rep: Report, rid="K17"):
    """A pointer obtained from an array (`mxGetData(a)`, `mxGetPr(a)`, `mxGetChars(a)`, `mxGetDimensions(a)`) or from
    `mxArrayToString` is not dereferenced, indexed or handed on after `mxDestroyArray(a)` / `mxFree(p)`, and the array itself is not
    used again: the value read is whatever the allocator left there (a converter that 'releases its temporaries' two statements
    before the `return *value`).  Statement order inside one function, by position; branches are not told apart, which is exact
    for the straight-line converters of this header and is stated as the rule's limit."""
    h = header(ctx)
    GETTERS = {"mxGetData", "mxGetPr", "mxGetChars", "mxGetDimensions", "mxGetLogicals", "mxGetPi"}
    n_fn = n_rel = 0
    seen_ids = set()
    for f in h.decls:
        fs = [f] if f.get("kind") == "FunctionDecl" else [c for c in f.get("inner", []) if isinstance(c, dict) and c.get("kind") == "FunctionDecl"] \
            if f.get("kind") == "FunctionTemplateDecl" else []
        for fn in fs:
            if fn.get("id") in seen_ids or not statements(fn):
                continue
            seen_ids.add(fn.get("id"))
            n_fn += 1
            releases = [c for c in calls(fn) if callee(c) in ("mxDestroyArray", "mxFree") and call_args(c)]
            if not releases:
                continue
            derived: Dict[str, str] = {}           # pointer variable -> array variable it points into
            for x in walk(fn):
                tgt = src = None
                ptr = False
                if x.get("kind") == "VarDecl" and x.get("inner"):
                    tgt, src = x.get("name"), x["inner"][-1]
                    ptr = (x.get("type") or {}).get("qualType", "").rstrip().endswith("*")
                elif x.get("kind") == "BinaryOperator" and x.get("opcode") == "=":
                    tgt, src = ref_name(x["inner"][0]), x["inner"][1]
                    ptr = (strip(x["inner"][0]).get("type") or {}).get("qualType", "").rstrip().endswith("*")
                # (a *value* read out of the array before the release is a copy: only pointers go stale)
                if tgt and src is not None and ptr:
                    for c in calls(src):
                        if callee(c) in GETTERS and call_args(c) and ref_name(call_args(c)[0]):
                            derived[tgt] = ref_name(call_args(c)[0])
                        if callee(c) == "mxArrayToString":
                            derived[tgt] = tgt
            order = {id(x): k for k, x in enumerate(walk(fn))}      # clang prints a node's line only where it changes: source order is the walk order
            for rel in releases:
                n_rel += 1
                victim = ref_name(call_args(rel)[0])
                if not victim:
                    continue
                at = max(order[id(y)] for y in walk(rel))
                stale = {p for p, a in derived.items() if a == victim} | {victim}
                rebinds = [(ref_name(x["inner"][0]), order[id(x)]) for x in walk(fn)
                           if x.get("kind") == "BinaryOperator" and x.get("opcode") == "=" and ref_name(x["inner"][0]) in stale and order[id(x)] > at]
                uses = []
                for x in walk(fn):
                    if x.get("kind") != "DeclRefExpr" or ref_name(x) not in stale or order[id(x)] <= at:
                        continue
                    # a fresh assignment to the name re-binds it; anything else is a use
                    if any(r[0] == ref_name(x) and r[1] <= order[id(x)] for r in rebinds):
                        continue
                    uses.append(ref_name(x))
                rep.add(rid, f"{fn.get('name')}:{callee(rel)}({victim}):nothing of it is used afterwards", not uses,
                        f"after `{callee(rel)}({victim})` the function still uses {sorted(set(uses))[:3]}: what is read there is a freed block - "
                        f"an enum argument arrives as whatever the allocator left in it", hloc(rel))
    rep.units["functions_scanned_for_use_after_destroy"] = n_fn
    rep.units["release_calls"] = n_rel
    if n_fn < 30:
        raise AnalysisError(f"{rep.prop}/{rid}: only {n_fn} functions of the header scanned")
