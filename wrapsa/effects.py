"""Engine F: call graph and effect analysis (FS_WRITE / FS_READ / NONDET / MAY_REJECT / state)."""
from __future__ import annotations

import ast
from typing import Dict, Iterable, List, Optional, Set, Tuple

from .core import AnalysisError
from .prog import (ClassInfo, ModuleInfo, Program, dotted, enclosing, func_params, parent, unparse,
                   walk_no_nested)

FS_WRITE, FS_READ, NONDET, MAY_REJECT = "FS_WRITE", "FS_READ", "NONDET", "MAY_REJECT"

WRITE_FUNCS = {"os.mkdir", "os.makedirs", "os.remove", "os.rename", "os.replace", "os.unlink",
               "os.rmdir", "os.removedirs", "os.symlink", "os.link", "os.truncate", "os.chmod",
               "os.utime", "shutil.copy", "shutil.copy2", "shutil.copyfile", "shutil.copytree",
               "shutil.move", "shutil.rmtree", "os.mkfifo", "os.write"}
WRITE_METHODS = {"write_text", "write_bytes", "mkdir", "touch", "unlink", "rename", "replace",
                 "rmdir", "symlink_to", "hardlink_to", "chmod"}
NONDET_PREFIX = ("random.", "time.", "datetime.", "uuid.", "secrets.", "socket.", "subprocess.",
                 "locale.", "platform.", "tempfile.", "glob.", "getpass.", "threading.",
                 "multiprocessing.")
NONDET_FUNCS = {"os.getenv", "os.getcwd", "os.listdir", "os.scandir", "os.walk", "os.getpid",
                "os.urandom", "os.times", "os.getlogin", "os.cpu_count", "id", "hash", "input",
                "os.environ.get", "os.path.getmtime", "os.stat", "os.path.getsize", "osp.getmtime",
                "Path.cwd", "Path.home", "pathlib.Path.cwd", "pathlib.Path.home", "os.path.expanduser",
                "osp.expanduser", "os.path.abspath", "osp.abspath", "vars", "globals", "locals", "dir"}
NONDET_ATTRS = {"os.environ", "sys.argv", "sys.path", "sys.flags", "sys.platform"}
NONDET_METHODS = {"iterdir", "glob", "rglob", "resolve", "absolute", "stat", "expanduser"}
PARSE_METHODS = {"parseString", "parse_string", "parseFile", "parse_file"}


class FuncId:
    __slots__ = ("rel", "qual")

    def __init__(self, rel, qual):
        self.rel, self.qual = rel, qual

    def __hash__(self):
        return hash((self.rel, self.qual))

    def __eq__(self, o):
        return isinstance(o, FuncId) and (self.rel, self.qual) == (o.rel, o.qual)

    def __repr__(self):
        return f"{self.rel}:{self.qual}"


def _identity_key_only(call: ast.Call) -> bool:
    """`id(x)` whose value is used only to address a table entry (`t[id(x)]`, `id(x) in t`): the number itself
    varies from run to run but never reaches an ordering or the output."""
    from .prog import parent
    p = parent(call)
    if isinstance(p, ast.Subscript) and p.slice is call:
        return True
    if isinstance(p, ast.Compare) and p.left is call and len(p.ops) == 1 and isinstance(p.ops[0], (ast.In, ast.NotIn)):
        return True
    return False


class Effects:
    def __init__(self, prog: Program):
        self.prog = prog
        self.funcs: Dict[FuncId, Tuple[ModuleInfo, ast.AST, Optional[ClassInfo]]] = {}
        for mi, q, fn, ci in prog.all_functions():
            self.funcs[FuncId(mi.rel, q)] = (mi, fn, ci)
        self.by_method: Dict[str, List[FuncId]] = {}
        for fid, (mi, fn, ci) in self.funcs.items():
            if ci is not None:
                self.by_method.setdefault(fn.name, []).append(fid)
        self._attr_types: Dict[Tuple[str, str], Optional[ClassInfo]] = {}
        self._direct: Dict[FuncId, Dict[str, List[ast.AST]]] = {}
        self._callees: Dict[FuncId, Set[FuncId]] = {}
        self._trans: Dict[FuncId, Set[str]] = {}
        self.unresolved_calls = 0
        self.resolved_calls = 0

    # ------------------------------------------------------------------ resolution
    def fid_of(self, ci: Optional[ClassInfo], mi: ModuleInfo, fn) -> FuncId:
        return FuncId(mi.rel, (ci.qual + "." if ci else "") + fn.name)

    def attr_class(self, ci: ClassInfo, attr: str) -> Optional[ClassInfo]:
        """Class of self.<attr> when __init__ assigns it a constructor call."""
        key = (ci.qual, attr)
        if key in self._attr_types:
            return self._attr_types[key]
        res = None
        for c in self.prog.mro(ci):
            init = c.methods.get("__init__")
            if init is None:
                continue
            for n in walk_no_nested(init):
                if isinstance(n, ast.Assign) and len(n.targets) == 1 and isinstance(n.targets[0], ast.Attribute) \
                        and isinstance(n.targets[0].value, ast.Name) and n.targets[0].value.id == "self" \
                        and n.targets[0].attr == attr and isinstance(n.value, ast.Call):
                    res = self.prog.resolve_class(n.value.func, c.mod)
        self._attr_types[key] = res
        return res

    def resolve_call(self, call: ast.Call, mi: ModuleInfo, ci: Optional[ClassInfo], fn=None) -> List[FuncId]:
        f = call.func
        prog = self.prog
        out: List[FuncId] = []
        # Cls(...)
        rc = prog.resolve_class(f, mi)
        if rc is not None:
            m = prog.find_method(rc, "__init__")
            if m is not None:
                out.append(self.fid_of(m[0], m[0].mod, m[1]))
            return out
        if isinstance(f, ast.Name):
            if f.id in mi.functions:
                return [FuncId(mi.rel, f.id)]
            imp = mi.imports.get(f.id)
            if imp and imp[0] == "name":
                return self._module_function(imp[1], imp[2])
            # nested def in the enclosing function
            if fn is not None:
                for n in ast.walk(fn):
                    if isinstance(n, ast.FunctionDef) and n is not fn and n.name == f.id:
                        return []
            return []
        if isinstance(f, ast.Attribute):
            base = f.value
            # self.method / cls.method
            if isinstance(base, ast.Name) and base.id in ("self", "cls") and ci is not None:
                m = prog.find_method(ci, f.attr)
                if m is not None:
                    return [self.fid_of(m[0], m[0].mod, m[1])]
                # maybe defined in a subclass using this mixin
                return [x for x in self.by_method.get(f.attr, [])]
            # super().method
            if isinstance(base, ast.Call) and isinstance(base.func, ast.Name) and base.func.id == "super" and ci:
                for b in prog.mro(ci)[1:]:
                    if f.attr in b.methods:
                        return [self.fid_of(b, b.mod, b.methods[f.attr])]
                return []
            # self.attr.method where attr's class is known
            if isinstance(base, ast.Attribute) and isinstance(base.value, ast.Name) and base.value.id == "self" and ci:
                ac = self.attr_class(ci, base.attr)
                if ac is not None:
                    m = prog.find_method(ac, f.attr)
                    if m is not None:
                        return [self.fid_of(m[0], m[0].mod, m[1])]
            # local variable bound to a constructor call: wrapper = PybindWrapper(...)
            if isinstance(base, ast.Name) and base.id not in ("self", "cls"):
                lc = self.local_class(base.id, fn if fn is not None else mi.tree, mi)
                if lc is not None:
                    m = prog.find_method(lc, f.attr)
                    return [self.fid_of(m[0], m[0].mod, m[1])] if m is not None else []
            # Class.method / module.func / module.Class.method
            rc = prog.resolve_class(base, mi)
            if rc is not None:
                m = prog.find_method(rc, f.attr)
                if m is not None:
                    return [self.fid_of(m[0], m[0].mod, m[1])]
                return []
            d = dotted(base)
            if d is not None:
                head = d.split(".")[0]
                imp = mi.imports.get(head)
                if imp and imp[0] == "module":
                    target = imp[1] + d[len(head):]
                    if target in prog.modules or any(m.startswith(target + ".") for m in prog.modules):
                        return self._module_function(target, f.attr)
                    return []      # foreign module (os, textwrap, ...)
            # unknown receiver: every program method of that name (over-approximation)
            return list(self.by_method.get(f.attr, []))
        return []

    def local_class(self, name: str, scope: ast.AST, mi: ModuleInfo) -> Optional[ClassInfo]:
        found = set()
        other = False
        for n in ast.walk(scope):
            if isinstance(n, ast.Assign):
                for t in n.targets:
                    if isinstance(t, ast.Name) and t.id == name:
                        rc = self.prog.resolve_class(n.value.func, mi) if isinstance(n.value, ast.Call) else None
                        if rc is not None:
                            found.add(rc.qual)
                        else:
                            other = True
            elif isinstance(n, (ast.For, ast.comprehension)) and isinstance(n.target, ast.Name) and n.target.id == name:
                other = True
            elif isinstance(n, ast.arg) and n.arg == name:
                other = True
        if len(found) == 1 and not other:
            return self.prog.cls(next(iter(found)))
        return None

    def _module_function(self, modname: str, name: str, _seen=None) -> List[FuncId]:
        _seen = _seen or set()
        if modname in _seen:
            return []
        _seen.add(modname)
        mi = self.prog.modules.get(modname)
        if mi is None:
            return []
        if name in mi.functions:
            return [FuncId(mi.rel, name)]
        if name in mi.classes:
            m = self.prog.find_method(mi.classes[name], "__init__")
            return [self.fid_of(m[0], m[0].mod, m[1])] if m else []
        imp = mi.imports.get(name)
        if imp and imp[0] == "name":
            return self._module_function(imp[1], imp[2], _seen)
        for s in mi.star_imports:
            r = self._module_function(s, name, _seen)
            if r:
                return r
        return []

    # ------------------------------------------------------------------ direct effects
    def direct_of_node(self, n: ast.AST, mi: ModuleInfo) -> Set[str]:
        """Effects of one AST node (not transitive)."""
        out: Set[str] = set()
        if isinstance(n, (ast.Raise, ast.Assert)):
            out.add(MAY_REJECT)
        elif isinstance(n, ast.Call):
            name = dotted(n.func) or ""
            name = self.canon(name, mi)
            if name in ("open", "io.open", "codecs.open") or name.endswith(".open") and name.split(".")[0] in ("Path", "pathlib"):
                mode = None
                if len(n.args) > 1:
                    mode = n.args[1]
                for k in n.keywords:
                    if k.arg == "mode":
                        mode = k.value
                if mode is None:
                    out.add(FS_READ)
                elif isinstance(mode, ast.Constant) and isinstance(mode.value, str):
                    out.add(FS_WRITE if any(c in mode.value for c in "wax+") else FS_READ)
                else:
                    out.add(FS_WRITE)
            elif name in WRITE_FUNCS:
                out.add(FS_WRITE)
            elif isinstance(n.func, ast.Attribute) and n.func.attr in WRITE_METHODS and \
                    not self.resolve_class_safe(n.func.value, mi):
                # Path-like write methods; `x.replace(a, b)` on strings is excluded below
                if n.func.attr in ("replace", "rename") and len(n.args) == 2:
                    pass
                elif n.func.attr in ("replace", "rename", "mkdir", "touch", "unlink", "rmdir", "chmod") \
                        and not self._pathish(n.func.value):
                    pass
                else:
                    out.add(FS_WRITE)
            if name.startswith(NONDET_PREFIX) or name in NONDET_FUNCS:
                if not (name == "id" and _identity_key_only(n)):
                    out.add(NONDET)
            if isinstance(n.func, ast.Attribute) and n.func.attr in NONDET_METHODS and self._pathish(n.func.value):
                out.add(NONDET)
            if isinstance(n.func, ast.Attribute) and n.func.attr in PARSE_METHODS:
                out.add(MAY_REJECT)
            if name in ("sys.exit", "exit", "quit", "os._exit"):
                out.add(MAY_REJECT)
            if isinstance(n.func, ast.Attribute) and n.func.attr in ("parse_args", "error"):
                out.add(MAY_REJECT)
            if name in ("ET.parse", "xml.etree.ElementTree.parse", "ElementTree.parse"):
                out.add(FS_READ)
        elif isinstance(n, ast.Attribute):
            d = dotted(n)
            if d:
                d = self.canon(d, mi)
                if d in NONDET_ATTRS or any(d.startswith(a + ".") for a in NONDET_ATTRS):
                    out.add(NONDET)
        return out

    def resolve_class_safe(self, e, mi):
        try:
            return self.prog.resolve_class(e, mi)
        except Exception:
            return None

    def _pathish(self, e: ast.AST) -> bool:
        s = unparse(e)
        if "Path(" in s or "path" in s.lower():
            return True
        # a local bound to a Path(...) - alone or as one element of a tuple assignment
        if isinstance(e, ast.Name):
            fn = enclosing(e, (ast.FunctionDef, ast.AsyncFunctionDef))
            for st in (walk_no_nested(fn) if fn is not None else ()):
                if not isinstance(st, ast.Assign):
                    continue
                for t in st.targets:
                    if isinstance(t, ast.Name) and t.id == e.id and "Path(" in unparse(st.value):
                        return True
                    if isinstance(t, ast.Tuple) and isinstance(st.value, ast.Tuple) and len(t.elts) == len(st.value.elts):
                        for a, b in zip(t.elts, st.value.elts):
                            if isinstance(a, ast.Name) and a.id == e.id and "Path(" in unparse(b):
                                return True
        return False

    def canon(self, name: str, mi: ModuleInfo) -> str:
        """Canonicalise `osp.join` -> `os.path.join`, `ET.parse` -> `xml.etree.ElementTree.parse`
        and names imported with `from m import f`."""
        if not name:
            return name
        head, _, rest = name.partition(".")
        imp = mi.imports.get(head)
        if imp is None:
            return name
        if imp[0] == "module":
            base = imp[1]
        else:
            base = imp[1] + "." + imp[2]
        return base + ("." + rest if rest else "")

    def direct(self, fid: FuncId) -> Dict[str, List[ast.AST]]:
        if fid in self._direct:
            return self._direct[fid]
        mi, fn, ci = self.funcs[fid]
        eff: Dict[str, List[ast.AST]] = {}
        callees: Set[FuncId] = set()
        for n in walk_no_nested(fn) if not isinstance(fn, ast.Module) else ast.walk(fn):
            for e in self.direct_of_node(n, mi):
                eff.setdefault(e, []).append(n)
            if isinstance(n, ast.Call):
                r = self.resolve_call(n, mi, ci, fn)
                if r:
                    self.resolved_calls += 1
                else:
                    self.unresolved_calls += 1
                callees.update(x for x in r if x in self.funcs)
            elif isinstance(n, ast.Lambda):
                for m in ast.walk(n.body):
                    if isinstance(m, ast.Call):
                        callees.update(x for x in self.resolve_call(m, mi, ci, fn) if x in self.funcs)
                    for e in self.direct_of_node(m, mi):
                        eff.setdefault(e, []).append(m)
            elif isinstance(n, (ast.FunctionDef, ast.AsyncFunctionDef)) and n is not fn:
                # nested def: treat its body as part of the function (it is called from it)
                for m in ast.walk(n):
                    if isinstance(m, ast.Call):
                        callees.update(x for x in self.resolve_call(m, mi, ci, n) if x in self.funcs)
                    for e in self.direct_of_node(m, mi):
                        eff.setdefault(e, []).append(m)
        self._direct[fid] = eff
        self._callees[fid] = callees
        return eff

    def callees(self, fid: FuncId) -> Set[FuncId]:
        self.direct(fid)
        return self._callees[fid]

    def reachable(self, roots: Iterable[FuncId]) -> Set[FuncId]:
        seen: Set[FuncId] = set()
        stack = [r for r in roots]
        while stack:
            f = stack.pop()
            if f in seen or f not in self.funcs:
                continue
            seen.add(f)
            stack.extend(self.callees(f))
        return seen

    def transitive(self, fid: FuncId) -> Set[str]:
        if fid in self._trans:
            return self._trans[fid]
        out: Set[str] = set()
        for f in self.reachable([fid]):
            out |= set(self.direct(f).keys())
        self._trans[fid] = out
        return out

    def witness(self, fid: FuncId, effect: str) -> str:
        """A call chain from fid to a site with the effect (for diagnostics)."""
        seen = set()
        stack = [(fid, [str(fid.qual)])]
        while stack:
            f, path = stack.pop()
            if f in seen or f not in self.funcs:
                continue
            seen.add(f)
            d = self.direct(f)
            if effect in d:
                n = d[effect][0]
                return " -> ".join(path) + f" @ {f.rel}:{getattr(n, 'lineno', 0)}"
            for c in self.callees(f):
                stack.append((c, path + [c.qual]))
        return ""

    # ------------------------------------------------------------------ statement effects
    def stmt_effects(self, st: ast.AST, mi: ModuleInfo, ci: Optional[ClassInfo], fn) -> Set[str]:
        out: Set[str] = set()
        for n in ast.walk(st):
            if isinstance(n, (ast.FunctionDef, ast.AsyncFunctionDef, ast.ClassDef)) and n is not st:
                continue
            out |= self.direct_of_node(n, mi)
            if isinstance(n, ast.Call):
                for c in self.resolve_call(n, mi, ci, fn):
                    if c in self.funcs:
                        out |= self.transitive(c)
        return out

    def entry(self, cls: str, name: str) -> FuncId:
        ci = self.prog.cls(cls)
        m = self.prog.find_method(ci, name)
        if m is None:
            raise AnalysisError(f"entry point vanished: {cls}.{name}")
        return self.fid_of(m[0], m[0].mod, m[1])
