"""Composition rules: several interface files and the command-line scripts (C16 Y2-Y4)."""
from __future__ import annotations

import ast
import string
from typing import Dict, List, Optional, Set, Tuple

from .core import AnalysisError, Report
from .emit import Folder
from .prog import (Program, bind_call, func_params, guards_of, inline_locals, local_assignments, parent, unparse,
                   walk_no_nested)

SCRIPTS = {"pybind": "scripts/pybind_wrap.py", "matlab": "scripts/matlab_wrap.py"}


def rule_submodule_contract(ctx, rep: Report, rid="Y2"):
    prog = ctx.prog
    ci = prog.cls("PybindWrapper")
    wrap = prog.method("PybindWrapper", "wrap")
    sub = prog.method("PybindWrapper", "wrap_submodule")
    wf = prog.method("PybindWrapper", "wrap_file")
    loc = f"{ci.mod.rel}:{wf.lineno}"
    # 1. the same derivation of the initialiser's name on both sides
    src_param = func_params(sub)[1]
    sub_call = next((c for c in walk_no_nested(sub) if isinstance(c, ast.Call) and unparse(c.func) == "self.wrap_file"), None)
    if sub_call is None:
        raise AnalysisError("wrap_submodule: call to wrap_file not found")
    b = bind_call(wf, sub_call, drop_self=True)
    sub_name = unparse(inline_locals(sub, b["module_name"])) if "module_name" in b else None
    apps = [c for c in walk_no_nested(wrap) if isinstance(c, ast.Call) and isinstance(c.func, ast.Attribute) and c.func.attr == "append"]
    main_names = [unparse(inline_locals(wrap, c.args[0])) for c in apps]
    loopvar = next((l.target.id for l in walk_no_nested(wrap) if isinstance(l, ast.For)), "?")
    norm_main = [m.replace(loopvar, "_SRC") for m in main_names]
    norm_sub = (sub_name or "").replace(src_param, "_SRC")
    rep.add(rid, "initialiser name:main file and submodule derive it from the source path the same way",
            norm_main == [norm_sub] and "stem" in norm_sub, f"main: {norm_main}, submodule: {norm_sub}", loc)
    it = next((unparse(l.iter) for l in walk_no_nested(wrap) if isinstance(l, ast.For)), "")
    rep.add(rid, "main file:one initialiser per additional file, in order", it == f"{func_params(wrap)[1]}[1:]",
            f"loop over {it}", f"{ci.mod.rel}:{wrap.lineno}")
    main_call = next((c for c in walk_no_nested(wrap) if isinstance(c, ast.Call) and unparse(c.func) == "self.wrap_file"), None)
    mb = bind_call(wf, main_call, drop_self=True) if main_call else {}
    rep.add(rid, "main file:the submodule list reaches wrap_file", "submodules" in mb and
            isinstance(mb["submodules"], ast.Name) and any(unparse(c.func.value) == mb["submodules"].id for c in apps),
            f"submodules={unparse(mb['submodules']) if 'submodules' in mb else None}", f"{ci.mod.rel}:{wrap.lineno}")
    # 1b. what a file contributes besides the module definition does not depend on whether it is the main file:
    #     only module_def / submodules / submodules_init may be computed under a test of the submodule list
    sp = "submodules" if "submodules" in func_params(wf) else None
    fmt = next((c for c in walk_no_nested(wf) if isinstance(c, ast.Call) and isinstance(c.func, ast.Attribute) and c.func.attr == "format"
                and "module_template" in unparse(c.func.value)), None)
    if sp is None or fmt is None:
        raise AnalysisError("wrap_file: submodules parameter / module template format call not found")
    role_slots = set()
    for k in fmt.keywords:
        if k.arg and any(isinstance(x, ast.Name) and x.id == sp for x in ast.walk(k.value)):
            role_slots.add(k.arg)
    for k in fmt.keywords:
        if k.arg is None:
            continue
        names = {x.id for x in ast.walk(k.value) if isinstance(x, ast.Name)}
        cond = []
        for st in walk_no_nested(wf):
            tg = None
            if isinstance(st, ast.Assign):
                tg = [t.id for t in st.targets if isinstance(t, ast.Name)]
            elif isinstance(st, ast.AugAssign) and isinstance(st.target, ast.Name):
                tg = [st.target.id]
            elif isinstance(st, ast.Expr) and isinstance(st.value, ast.Call) and isinstance(st.value.func, ast.Attribute) \
                    and isinstance(st.value.func.value, ast.Name) and st.value.func.attr in ("append", "extend", "insert"):
                tg = [st.value.func.value.id]
            if not tg or not (set(tg) & names):
                continue
            gs = [t for t, pol in guards_of(st, wf, include_exits=False) if sp in [x.id for x in ast.walk(ast.parse(t, mode="eval")) if isinstance(x, ast.Name)]]
            if gs:
                cond.append((st.lineno, gs[0]))
        main_only = k.arg in ("module_def", "submodules", "submodules_init") or k.arg in role_slots
        rep.add(rid, f"wrap_file:{{{k.arg}}}:computed the same way for the main file and for an additional file", main_only or not cond,
                f"{{{k.arg}}} is built under `{cond[0][1] if cond else ''}` (line {cond[0][0] if cond else 0}): an additional file wrapped as a "
                f"submodule loses / gains this part compared with wrapping the same text alone (e.g. the BOOST_CLASS_EXPORT block and its "
                f"#include only in the main file)", f"{ci.mod.rel}:{cond[0][0] if cond else wf.lineno}", nontrivial=not main_only)
    # 2. the three templates agree on the signature and on the module variable
    fo = Folder(prog, ci.mod, wf, ci)
    tpls = {}
    for c in walk_no_nested(wf):
        if isinstance(c, ast.Call) and isinstance(c.func, ast.Attribute) and c.func.attr == "format" \
                and isinstance(c.func.value, ast.Constant):
            t = fo.fold(c)
            if t is not None:
                tpls[t.literal("@")] = (t, c)
    lits = sorted(tpls)
    decl = [l for l in lits if l.startswith("void @(") and l.endswith(");")]
    defn = [l for l in lits if l.startswith("void @(") and not l.endswith(";")]
    call = [l for l in lits if l.startswith("@(") and l.endswith(");")]
    main = [l for l in lits if l.startswith("PYBIND11_MODULE(")]
    ok_shapes = len(decl) == 1 and len(defn) == 1 and len(call) == 1 and len(main) == 1
    detail = f"declaration {decl}, definition {defn}, call {call}, main {main}"
    if ok_shapes:
        ptype = decl[0][len("void @("):-2].strip()
        dsig = defn[0][len("void @("):-1].strip()
        var = dsig[len(ptype):].strip() if dsig.startswith(ptype) else None
        carg = call[0][2:-2].strip()
        mvar = main[0][len("PYBIND11_MODULE("):-1].split(",")[-1].strip()
        ok_sig = dsig.startswith(ptype) and var not in (None, "") and carg == var and mvar == var and ptype.endswith("&")
        detail += f"; parameter type {ptype!r}, variable {var!r}, call argument {carg!r}, main module variable {mvar!r}"
        rep.add(rid, "initialiser:declared, defined and called with one signature and one module variable", ok_sig, detail, loc)
        gm = prog.method("PybindWrapper", "_gen_module_var")
        gfo = Folder(prog, ci.mod, gm, ci)
        gt = next((gfo.fold(r.value) for r in walk_no_nested(gm) if isinstance(r, ast.Return)), None)
        pref = gt.literal("@") if gt is not None else ""
        rep.add(rid, "module variable:the prefix used for wrapped content is the initialiser's parameter", var is not None
                and pref == f"{var.rstrip('_')}_@" and "'_'.join" in unparse(gm),
                f"_gen_module_var builds {pref!r}; initialiser parameter {var!r}", f"{ci.mod.rel}:{gm.lineno}")
        # same name expression for declaration and call
        dt, dc = tpls[decl[0]]
        ct, cc = tpls[call[0]]
        rep.add(rid, "main file:declaration and call of an initialiser use the same name",
                unparse(dc.args[0]) == unparse(cc.args[0]), f"{unparse(dc.args[0])} vs {unparse(cc.args[0])}", loc)
    else:
        rep.add(rid, "initialiser:declared, defined and called with one signature and one module variable", False, detail, loc)
    # definition only when wrapped as a submodule; PYBIND11_MODULE otherwise
    tests = [unparse(i.test) for i in walk_no_nested(wf) if isinstance(i, ast.If) and "submodules" in unparse(i.test)]
    rep.add(rid, "wrap_file:main-module form iff a submodule list is given", tests == ["submodules is not None"], f"{tests}", loc,
            nontrivial=False)


def _script_info(ctx, rel: str):
    prog = ctx.prog
    mi = prog.module(rel)
    opts = {}
    for c in ast.walk(mi.tree):
        if isinstance(c, ast.Call) and isinstance(c.func, ast.Attribute) and c.func.attr == "add_argument" and c.args \
                and isinstance(c.args[0], ast.Constant):
            flag = c.args[0].value
            kw = {k.arg: k.value for k in c.keywords}
            dest = flag.lstrip("-").replace("-", "_")
            opts[flag] = {"dest": dest, "kw": kw, "node": c}
    ctor = None
    for c in ast.walk(mi.tree):
        if isinstance(c, ast.Call) and prog.resolve_class(c.func, mi) is not None and \
                prog.resolve_class(c.func, mi).qual in ("PybindWrapper", "MatlabWrapper"):
            ctor = c
    scope = mi.functions.get("main", mi.tree)
    return mi, opts, ctor, scope


def _is_parse_args(e) -> bool:
    return isinstance(e, ast.Call) and isinstance(e.func, ast.Attribute) and e.func.attr == "parse_args"


def _args_var(scope) -> str:
    """The variable that holds the parsed command line: bound to `<parser>.parse_args()` directly, or to the result of
    a module-level helper all of whose returns are that call (or a local bound to it)."""
    root = scope
    while parent(root) is not None:
        root = parent(root)
    helpers = set()
    for f in getattr(root, "body", []):
        if isinstance(f, ast.FunctionDef):
            rets = [r.value for r in ast.walk(f) if isinstance(r, ast.Return) and r.value is not None]
            bound = {st.targets[0].id for st in ast.walk(f) if isinstance(st, ast.Assign) and len(st.targets) == 1
                     and isinstance(st.targets[0], ast.Name) and _is_parse_args(st.value)}
            if rets and all(_is_parse_args(r) or (isinstance(r, ast.Name) and r.id in bound) for r in rets):
                helpers.add(f.name)
    for st in ast.walk(scope):
        if isinstance(st, ast.Assign) and len(st.targets) == 1 and isinstance(st.targets[0], ast.Name) and isinstance(st.value, ast.Call):
            if _is_parse_args(st.value) or (isinstance(st.value.func, ast.Name) and st.value.func.id in helpers):
                return st.targets[0].id
    raise AnalysisError("script: result of parse_args() is not bound to a variable")


PLUMBING = {
    "pybind": {"--module_name": ("ctor", "module_name"), "--use-boost-serialization": ("ctor", "use_boost_serialization"),
               "--top_module_namespaces": ("ctor", "top_module_namespaces"), "--ignore": ("ctor", "ignore_classes"),
               "--template": ("ctor", "module_template"), "--xml_source": ("ctor", "xml_source"),
               "--src": ("call", ("wrap", 0), ("wrap_submodule", 0)), "--out": ("call", ("wrap", 1)),
               "--is_submodule": ("branch", None)},
    "matlab": {"--module_name": ("ctor", "module_name"), "--use-boost-serialization": ("ctor", "use_boost_serialization"),
               "--top_module_namespaces": ("ctor", "top_module_namespace"), "--ignore": ("ctor", "ignore_classes"),
               "--src": ("call", ("wrap", 0)), "--out": ("call", ("wrap", 1))},
}


# options whose value is, by design, not handed over as it is: one reason each (their derivation is decided by the named rule)
DERIVED_OPTIONS = {
    "--top_module_namespaces": "a `::`-separated path becomes the list of its components (Y3: option plumbing, namespace form)",
    "--template": "a file name; the API receives the file's content (C14/R5 decides what is read)",
}


def _values(scope, e: ast.AST) -> List[ast.AST]:
    """All values a local may hold at its use (every assignment in the scope), the expression itself otherwise."""
    if isinstance(e, ast.Name):
        vs = [st.value for st in ast.walk(scope) if isinstance(st, ast.Assign) and any(isinstance(t, ast.Name) and t.id == e.id for t in st.targets)]
        if vs:
            out = []
            for v in vs:
                out += _values(scope, v) if isinstance(v, ast.Name) and v.id != e.id else [v]
            return out
    return [e]


def _is_option_itself(v: ast.AST, av: str, dest: str) -> bool:
    """args.<dest>, or `args.<dest> or <empty literal>` (a None guard)."""
    def opt(x):
        return isinstance(x, ast.Attribute) and x.attr == dest and isinstance(x.value, ast.Name) and x.value.id == av
    if opt(v):
        return True
    if isinstance(v, ast.BoolOp) and isinstance(v.op, ast.Or) and len(v.values) == 2 and opt(v.values[0]):
        d = v.values[1]
        return (isinstance(d, (ast.List, ast.Tuple)) and not d.elts) or (isinstance(d, ast.Constant) and d.value in ("", None))
    if isinstance(v, ast.IfExp) and opt(v.body) and isinstance(v.orelse, (ast.List, ast.Tuple, ast.Constant)):
        return True
    return False


def _mentions(scope, e: ast.AST, dest: str, depth=4) -> bool:
    """Does expression e (through locals) depend on <args>.<dest>?"""
    av = _args_var(scope)
    for x in ast.walk(e):
        if isinstance(x, ast.Attribute) and x.attr == dest and isinstance(x.value, ast.Name) and x.value.id == av:
            return True
    if depth > 0:
        for x in ast.walk(e):
            if isinstance(x, ast.Name):
                for st in ast.walk(scope):
                    if isinstance(st, ast.Assign) and any(isinstance(t, ast.Name) and t.id == x.id for t in st.targets):
                        if _mentions(scope, st.value, dest, depth - 1):
                            return True
                    if isinstance(st, ast.With):
                        for it in st.items:
                            if it.optional_vars is not None and isinstance(it.optional_vars, ast.Name) and it.optional_vars.id == x.id:
                                if _mentions(scope, it.context_expr, dest, depth - 1):
                                    return True
    return False


def rule_option_plumbing(ctx, rep: Report, rid="Y3"):
    prog = ctx.prog
    for which, rel in SCRIPTS.items():
        mi, opts, ctor, scope = _script_info(ctx, rel)
        if ctor is None:
            raise AnalysisError(f"{rel}: wrapper construction not found")
        table = PLUMBING[which]
        cls = prog.resolve_class(ctor.func, mi)
        init = prog.find_method(cls, "__init__")[1]
        b = bind_call(init, ctor, drop_self=True)
        for flag in sorted(opts):
            o = opts[flag]
            loc = f"{rel}:{o['node'].lineno}"
            av = _args_var(scope)
            read = any(isinstance(x, ast.Attribute) and x.attr == o["dest"] and isinstance(x.value, ast.Name) and x.value.id == av
                       for x in ast.walk(scope))
            rep.add(rid, f"{which}:{flag}:declared option is read", read, f"args.{o['dest']} is never used", loc, nontrivial=False)
            if flag not in table:
                rep.add(rid, f"{which}:{flag}:known option", False,
                        "an option the plumbing table does not know: add it to the table with its API counterpart", loc)
                continue
            kind = table[flag]
            if kind[0] == "ctor":
                p = kind[1]
                ok = p in b and _mentions(scope, b[p], o["dest"])
                rep.add(rid, f"{which}:{flag} -> {cls.qual}({p}=...)", ok,
                        f"constructor receives {p}={unparse(b[p]) if p in b else 'nothing'}, which does not depend on "
                        f"args.{o['dest']}", f"{rel}:{ctor.lineno}")
                if ok and flag not in DERIVED_OPTIONS:
                    # the script adds nothing of its own: the API given the same value produces the same output
                    vals = _values(scope, b[p])
                    plain = all(_is_option_itself(v, av, o["dest"]) for v in vals)
                    rep.add(rid, f"{which}:{flag}:reaches the API as given on the command line", plain,
                            f"{p} <- {[unparse(v)[:70] for v in vals]}: the script rewrites the option value before handing it to "
                            f"{cls.qual} (splitting, filtering, normalising), so the script and the API given the same value produce "
                            f"different output (e.g. an ignore entry `ns::Table<int, double>` split at the blank matches nothing)",
                            f"{rel}:{ctor.lineno}")
            elif kind[0] == "call":
                for meth, pos in kind[1:]:
                    calls = [c for c in ast.walk(scope) if isinstance(c, ast.Call) and isinstance(c.func, ast.Attribute) and c.func.attr == meth]
                    ok = False
                    for c in calls:
                        fn = prog.find_method(cls, meth)[1]
                        bb = bind_call(fn, c, drop_self=True)
                        pname = func_params(fn)[1:][pos]
                        ok = ok or (pname in bb and _mentions(scope, bb[pname], o["dest"]))
                    rep.add(rid, f"{which}:{flag} -> {cls.qual}.{meth}(argument {pos})", ok,
                            f"the call does not pass a value depending on args.{o['dest']}", loc)
            elif kind[0] == "branch":
                tests = [unparse(i.test) for i in ast.walk(scope) if isinstance(i, ast.If)]
                rep.add(rid, f"{which}:{flag}:selects wrap_submodule vs wrap", f"{_args_var(scope)}.{o['dest']}" in tests, f"tests {tests}", loc)
        missing = sorted(set(table) - set(opts))
        rep.add(rid, f"{which}:every documented option is declared", not missing, f"missing {missing}", f"{rel}:1", nontrivial=False)
        # an option that may be None must not reach a membership / iteration use
        for flag in ("--ignore",):
            o = opts.get(flag)
            if o is None:
                continue
            kw = o["kw"]
            may_none = "default" not in kw and not (isinstance(kw.get("required"), ast.Constant) and kw["required"].value is True) \
                and not (isinstance(kw.get("action"), ast.Constant) and kw["action"].value in ("store_true", "store_false", "append"))
            if "default" in kw and isinstance(kw["default"], ast.Constant) and kw["default"].value is None:
                may_none = True
            guarded = False
            if may_none:
                p = PLUMBING[which][flag][1]
                v = b.get(p)
                guarded = v is not None and not (isinstance(v, ast.Attribute) and v.attr == o["dest"])   # e.g. `args.ignore or []`
            rep.add(rid, f"{which}:{flag}:never None where the generator tests membership in it", (not may_none) or guarded,
                    f"{flag} has nargs='*' and no default: when the option is absent argparse yields None, which reaches "
                    f"`cpp_class in self.ignore_classes` (TypeError: argument of type 'NoneType' is not iterable) at the "
                    f"first class", f"{rel}:{o['node'].lineno}")
    if sum(1 for o in rep.obs if o.rule == rid) < 30:
        raise AnalysisError(f"{rep.prop}/{rid}: too few option obligations")


def rule_sibling_scripts(ctx, rep: Report, rid="Y4"):
    forms = {}
    for which, rel in SCRIPTS.items():
        mi, opts, ctor, scope = _script_info(ctx, rel)
        av = _args_var(scope)
        tv = None
        src_scope, src_param = scope, None
        for st in ast.walk(scope):
            if isinstance(st, ast.Assign) and len(st.targets) == 1 and isinstance(st.targets[0], ast.Name) \
                    and unparse(st.value).startswith(f"{av}.top_module_namespaces"):
                tv = st.targets[0].id
            # ... or built by a module-level helper that is given the option value
            if isinstance(st, ast.Assign) and len(st.targets) == 1 and isinstance(st.targets[0], ast.Name) and isinstance(st.value, ast.Call) \
                    and isinstance(st.value.func, ast.Name) and st.value.func.id in mi.functions and len(st.value.args) == 1 \
                    and unparse(st.value.args[0]) == f"{av}.top_module_namespaces":
                h = mi.functions[st.value.func.id]
                rets = [r.value for r in ast.walk(h) if isinstance(r, ast.Return) and r.value is not None]
                if len(rets) == 1 and isinstance(rets[0], ast.Name) and len(h.args.args) == 1:
                    tv, src_scope, src_param = rets[0].id, h, h.args.args[0].arg
        if tv is None:
            raise AnalysisError(f"{rel}: the list built from --top_module_namespaces is not bound to a variable")

        def norm(node) -> str:
            c = ast.parse(unparse(node)).body[0]

            class T(ast.NodeTransformer):
                def visit_Name(self, x):
                    if x.id == tv:
                        x.id = "_T"
                    elif src_param is None and x.id == av:
                        x.id = "_A"
                    elif src_param is not None and x.id == src_param:
                        return ast.Attribute(value=ast.Name(id="_A", ctx=ast.Load()), attr="top_module_namespaces", ctx=ast.Load())
                    return x
            return unparse(ast.fix_missing_locations(T().visit(c)))
        scope = src_scope
        stmts = []
        ifs = [st for st in ast.walk(scope) if isinstance(st, ast.If) and tv in {x.id for x in ast.walk(st.test) if isinstance(x, ast.Name)}]
        for st in ast.walk(scope):
            if isinstance(st, ast.Assign) and any(isinstance(t, ast.Name) and t.id == tv for t in st.targets):
                if any(st in i.body or st in i.orelse for i in ifs):
                    continue
                stmts.append((st.lineno, norm(st)))
        for i in ifs:
            stmts.append((i.lineno, norm(i)))
        forms[which] = [t for _, t in sorted(stmts)]
    rep.add(rid, "both scripts turn --top_module_namespaces into a list by the same normal form",
            forms["pybind"] == forms["matlab"] and bool(forms["pybind"]) and any(".split('::')" in t for t in forms["pybind"]),
            f"pybind: {forms['pybind']}; matlab: {forms['matlab']}", f"{SCRIPTS['matlab']}:1")



def rule_source_list_unfiltered(ctx, rep: Report, rid="Y3"):
    """The list of interface files handed to the library is exactly the --src option split at ';':
    every file the caller named is wrapped / declared, in the order given."""
    prog = ctx.prog
    for which, rel in SCRIPTS.items():
        mi, opts, ctor, scope = _script_info(ctx, rel)
        av = _args_var(scope)
        calls = [c for c in ast.walk(scope) if isinstance(c, ast.Call) and isinstance(c.func, ast.Attribute) and c.func.attr == "wrap"
                 and c.args]
        for c in calls:
            a = c.args[0]
            ok = False
            detail = unparse(a)
            if isinstance(a, ast.Name):
                defs = [st for st in ast.walk(scope) if isinstance(st, (ast.Assign, ast.AugAssign)) and any(
                    isinstance(t, ast.Name) and t.id == a.id for t in (st.targets if isinstance(st, ast.Assign) else [st.target]))]
                vals = [unparse(st.value).replace(" ", "").replace('"', "'") for st in defs]
                ok = vals == [f"{av}.src.split(';')"]
                detail = f"{a.id} <- {vals}"
                # no in-place edits of the list either
                muts = [m for m in ast.walk(scope) if isinstance(m, ast.Call) and isinstance(m.func, ast.Attribute)
                        and isinstance(m.func.value, ast.Name) and m.func.value.id == a.id
                        and m.func.attr in ("remove", "pop", "sort", "reverse", "insert", "append", "extend", "clear")]
                dels = [d for d in ast.walk(scope) if isinstance(d, (ast.Delete,)) and a.id in unparse(d)]
                ok = ok and not muts and not dels
            else:
                ok = unparse(a).replace(" ", "").replace('"', "'") == f"{av}.src.split(';')"
            rep.add(rid, f"{which}:the source list passed to wrap() is --src split at ';', unfiltered and in order", ok,
                    f"{detail}: a file the caller listed can be dropped or re-ordered before the library sees it, so the "
                    f"script no longer produces what the API produces for the same list", f"{rel}:{c.lineno}")
