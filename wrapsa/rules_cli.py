"""Composition rules: several interface files and the command-line scripts (C16 Y2-Y4)."""
from __future__ import annotations

import ast
import re
import string
from typing import Dict, List, Optional, Set, Tuple

from .core import AnalysisError, Report
from .emit import Folder
from .prog import (Program, bind_call, enclosing, func_params, guards_of, inline_locals, local_assignments, parent, stmt_of, unparse,
                   walk_no_nested)

SCRIPTS = {"pybind": "scripts/pybind_wrap.py", "matlab": "scripts/matlab_wrap.py"}


def _name_list(fn, e):
    """How the list handed over as `submodules` is computed: (element expression with the iteration variable written
    _SRC, text of what is iterated, form) - for a local list filled by append in a loop, a comprehension, or a local bound
    to one; (None, '', reason) when it is none of these."""
    if e is None:
        return None, "", "not passed"

    def norm(elt, var):
        t = clone_norm(fn, elt)
        return t.replace(var, "_SRC")

    def clone_norm(fn_, x):
        return unparse(inline_locals(fn_, x))

    def iter_text(it):
        if isinstance(it, ast.Name):
            v = inline_locals(fn, it)
            return unparse(v)
        return unparse(it)
    if isinstance(e, ast.Call) and isinstance(e.func, ast.Name) and e.func.id in ("list", "tuple") and len(e.args) == 1:
        return _name_list(fn, e.args[0])
    if isinstance(e, ast.Call) and isinstance(e.func, ast.Name) and e.func.id in ("sorted", "reversed", "set", "frozenset") and e.args:
        elt, it, how = _name_list(fn, e.args[0])
        return elt, it, f"{how}, then re-ordered by {e.func.id}()"
    if isinstance(e, (ast.GeneratorExp, ast.ListComp)) and len(e.generators) == 1 and e.generators[0].ifs and isinstance(e.generators[0].target, ast.Name):
        g = e.generators[0]
        cond = " and ".join(unparse(c) for c in g.ifs)
        return unparse(e.elt).replace(g.target.id, "_SRC"), iter_text(g.iter), f"comprehension, filtered by `{cond}`"
    if isinstance(e, ast.GeneratorExp) and len(e.generators) == 1 and not e.generators[0].ifs and isinstance(e.generators[0].target, ast.Name):
        g = e.generators[0]
        return unparse(e.elt).replace(g.target.id, "_SRC"), iter_text(g.iter), "generator"
    if isinstance(e, ast.Name):
        defs = [st for st in walk_no_nested(fn) if isinstance(st, ast.Assign) and len(st.targets) == 1 and isinstance(st.targets[0], ast.Name)
                and st.targets[0].id == e.id]
        apps = [c for c in walk_no_nested(fn) if isinstance(c, ast.Call) and isinstance(c.func, ast.Attribute) and c.func.attr == "append"
                and unparse(c.func.value) == e.id and len(c.args) == 1]
        if len(defs) == 1 and isinstance(defs[0].value, (ast.ListComp, ast.Call, ast.GeneratorExp)):
            return _name_list(fn, defs[0].value)
        if len(defs) == 1 and isinstance(defs[0].value, ast.List) and not defs[0].value.elts and len(apps) == 1:
            loop = enclosing(apps[0], ast.For)
            if loop is not None and isinstance(loop.target, ast.Name):
                # conditions inside the loop under which the name is (not) appended: an enclosing `if`, an earlier `if ..: continue`
                outer_gs = guards_of(loop, fn, include_exits=True)
                gs = [t if pol else f"not ({t})" for t, pol in guards_of(apps[0], fn, include_exits=True) if (t, pol) not in outer_gs]
                if not gs:
                    return norm(apps[0].args[0], loop.target.id), iter_text(loop.iter), "loop + append"
                return norm(apps[0].args[0], loop.target.id), iter_text(loop.iter), f"loop + append, filtered by `{' and '.join(gs)}`"
        return None, "", "list built in an unrecognised way"
    if isinstance(e, ast.ListComp) and len(e.generators) == 1 and not e.generators[0].ifs and isinstance(e.generators[0].target, ast.Name):
        g = e.generators[0]
        return unparse(e.elt).replace(g.target.id, "_SRC"), iter_text(g.iter), "comprehension"
    return None, "", "list built in an unrecognised way"


def _submodule_contract_rest(ctx, rep, rid, prog, ci, wrap, wf, loc):
    # 1b. what a file contributes besides the module definition does not depend on whether it is the main file:
    #     only module_def / submodules / submodules_init may be computed under a test of the submodule list
    sp = "submodules" if "submodules" in func_params(wf) else None
    fmt = next((c for c in walk_no_nested(wf) if isinstance(c, ast.Call) and isinstance(c.func, ast.Attribute) and c.func.attr == "format"
                and "module_template" in unparse(c.func.value)), None)
    if sp is None or fmt is None:
        raise AnalysisError("wrap_file: submodules parameter / module template format call not found")
    role_slots = set()
    for k in fmt.keywords:
        if k.arg and any(isinstance(x, ast.Name) and x.id == sp for x in ast.walk(k.value)):
            role_slots.add(k.arg)
    for k in fmt.keywords:
        if k.arg is None:
            continue
        names = {x.id for x in ast.walk(k.value) if isinstance(x, ast.Name)}
        cond = []
        for st in walk_no_nested(wf):
            tg = None
            if isinstance(st, ast.Assign):
                tg = [t.id for t in st.targets if isinstance(t, ast.Name)]
            elif isinstance(st, ast.AugAssign) and isinstance(st.target, ast.Name):
                tg = [st.target.id]
            elif isinstance(st, ast.Expr) and isinstance(st.value, ast.Call) and isinstance(st.value.func, ast.Attribute) \
                    and isinstance(st.value.func.value, ast.Name) and st.value.func.attr in ("append", "extend", "insert"):
                tg = [st.value.func.value.id]
            if not tg or not (set(tg) & names):
                continue
            gs = [t for t, pol in guards_of(st, wf, include_exits=False) if sp in [x.id for x in ast.walk(ast.parse(t, mode="eval")) if isinstance(x, ast.Name)]]
            if gs:
                cond.append((st.lineno, gs[0]))
        main_only = k.arg in ("module_def", "submodules", "submodules_init") or k.arg in role_slots
        rep.add(rid, f"wrap_file:{{{k.arg}}}:computed the same way for the main file and for an additional file", main_only or not cond,
                f"{{{k.arg}}} is built under `{cond[0][1] if cond else ''}` (line {cond[0][0] if cond else 0}): an additional file wrapped as a "
                f"submodule loses / gains this part compared with wrapping the same text alone (e.g. the BOOST_CLASS_EXPORT block and its "
                f"#include only in the main file)", f"{ci.mod.rel}:{cond[0][0] if cond else wf.lineno}", nontrivial=not main_only)
    # 2. the three templates agree on the signature and on the module variable
    fo = Folder(prog, ci.mod, wf, ci)
    tpls = {}
    for c in walk_no_nested(wf):
        if (isinstance(c, ast.Call) and isinstance(c.func, ast.Attribute) and c.func.attr == "format"
                and isinstance(c.func.value, ast.Constant)) or isinstance(c, ast.JoinedStr):
            t = fo.fold(c)
            if t is not None:
                tpls[t.literal("@")] = (t, c)
    lits = sorted(tpls)
    decl = [l for l in lits if l.startswith("void @(") and l.endswith(");")]
    defn = [l for l in lits if l.startswith("void @(") and not l.endswith(";")]
    call = [l for l in lits if l.startswith("@(") and l.endswith(");")]
    main = [l for l in lits if l.startswith("PYBIND11_MODULE(")]
    ok_shapes = len(decl) == 1 and len(defn) == 1 and len(call) == 1 and len(main) == 1
    detail = f"declaration {decl}, definition {defn}, call {call}, main {main}"
    if ok_shapes:
        ptype = decl[0][len("void @("):-2].strip()
        dsig = defn[0][len("void @("):-1].strip()
        var = dsig[len(ptype):].strip() if dsig.startswith(ptype) else None
        carg = call[0][2:-2].strip()
        mvar = main[0][len("PYBIND11_MODULE("):-1].split(",")[-1].strip()
        ok_sig = dsig.startswith(ptype) and var not in (None, "") and carg == var and mvar == var and ptype.endswith("&")
        detail += f"; parameter type {ptype!r}, variable {var!r}, call argument {carg!r}, main module variable {mvar!r}"
        rep.add(rid, "initialiser:declared, defined and called with one signature and one module variable", ok_sig, detail, loc)
        gm = prog.method("PybindWrapper", "_gen_module_var")
        gfo = Folder(prog, ci.mod, gm, ci)
        gt = next((gfo.fold(r.value) for r in walk_no_nested(gm) if isinstance(r, ast.Return)), None)
        pref = gt.literal("@") if gt is not None else ""
        rep.add(rid, "module variable:the prefix used for wrapped content is the initialiser's parameter", var is not None
                and pref == f"{var.rstrip('_')}_@" and "'_'.join" in unparse(gm),
                f"_gen_module_var builds {pref!r}; initialiser parameter {var!r}", f"{ci.mod.rel}:{gm.lineno}")
        # same name expression for declaration and call
        dt, dc = tpls[decl[0]]
        ct, cc = tpls[call[0]]
        rep.add(rid, "main file:declaration and call of an initialiser use the same name",
                bool(dt.slots()) and bool(ct.slots()) and unparse(dt.slots()[0].val) == unparse(ct.slots()[0].val),
                f"{unparse(dt.slots()[0].val) if dt.slots() else None} vs {unparse(ct.slots()[0].val) if ct.slots() else None}", loc)
    else:
        rep.add(rid, "initialiser:declared, defined and called with one signature and one module variable", False, detail, loc)
    # definition only when wrapped as a submodule; PYBIND11_MODULE otherwise
    tests = [unparse(i.test) for i in walk_no_nested(wf) if isinstance(i, ast.If) and "submodules" in unparse(i.test)]
    rep.add(rid, "wrap_file:main-module form iff a submodule list is given", tests == ["submodules is not None"], f"{tests}", loc,
            nontrivial=False)



def rule_submodule_contract(ctx, rep: Report, rid="Y2"):
    prog = ctx.prog
    ci = prog.cls("PybindWrapper")
    wrap = prog.method("PybindWrapper", "wrap")
    sub = prog.method("PybindWrapper", "wrap_submodule")
    wf = prog.method("PybindWrapper", "wrap_file")
    loc = f"{ci.mod.rel}:{wf.lineno}"
    # 1. the same derivation of the initialiser's name on both sides
    src_param = func_params(sub)[1]
    sub_call = next((c for c in walk_no_nested(sub) if isinstance(c, ast.Call) and unparse(c.func) == "self.wrap_file"), None)
    if sub_call is None:
        raise AnalysisError("wrap_submodule: call to wrap_file not found")
    b = bind_call(wf, sub_call, drop_self=True)
    sub_name = unparse(inline_locals(sub, b["module_name"])) if "module_name" in b else None
    main_call = next((c for c in walk_no_nested(wrap) if isinstance(c, ast.Call) and unparse(c.func) == "self.wrap_file"), None)
    mb = bind_call(wf, main_call, drop_self=True) if main_call else {}
    names_e = mb.get("submodules")
    elt_norm, it_txt, how = _name_list(wrap, names_e)
    norm_sub = (sub_name or "").replace(src_param, "_SRC")
    probs_, why_ = _initialisers_by_evaluation(ctx)
    if probs_ is not None:
        # decided by running the three name derivations on a sample list of files (stems ending in `i`, nested folders)
        rep.add(rid, "initialiser name:one initialiser per additional file, declared and called by the main file under the name the file defines, in order",
                not probs_, f"{probs_[:2]}: the parts do not link (an initialiser declared under one name and defined under another is an undefined symbol "
                f"at import), or a file's classes are missing from the module", loc)
        _submodule_contract_rest(ctx, rep, rid, prog, ci, wrap, wf, loc)
        return
    rep.add(rid, "initialiser name:main file and submodule derive it from the source path the same way",
            elt_norm == norm_sub and "stem" in norm_sub, f"main: {elt_norm} ({how}), submodule: {norm_sub}", loc)
    srcs = func_params(wrap)[1]
    popped = any(isinstance(c, ast.Call) and unparse(c.func) == f"{srcs}.pop" and [unparse(a) for a in c.args] == ["0"] for c in walk_no_nested(wrap))
    rest_names = {st.targets[0].elts[1].value.id for st in walk_no_nested(wrap) if isinstance(st, ast.Assign) and isinstance(st.targets[0], (ast.Tuple, ast.List))
                  and len(st.targets[0].elts) == 2 and isinstance(st.targets[0].elts[1], ast.Starred) and isinstance(st.targets[0].elts[1].value, ast.Name)
                  and unparse(st.value) == srcs}
    it_ok = it_txt in (f"{srcs}[1:]", f"list({srcs}[1:])", f"tuple({srcs}[1:])") or (popped and it_txt == srcs) or it_txt in rest_names
    rep.add(rid, "main file:one initialiser per additional file, in order", it_ok and "re-ordered" not in how and "filtered" not in how,
            f"names computed over `{it_txt}` ({how}): one initialiser has to be declared and called for *every* additional file, in the order the files "
            f"were given - a file that is left out (by its suffix, its content, ...) is still wrapped as a submodule, its initialiser is defined but never "
            f"called, and its classes are missing from the imported module; pybind11 registration is order-dependent (a base class before the classes "
            f"derived from it)", f"{ci.mod.rel}:{wrap.lineno}")
    rep.add(rid, "main file:the submodule list reaches wrap_file", names_e is not None and elt_norm is not None,
            f"submodules={unparse(names_e) if names_e is not None else None}", f"{ci.mod.rel}:{wrap.lineno}")
    _submodule_contract_rest(ctx, rep, rid, prog, ci, wrap, wf, loc)


def _script_info(ctx, rel: str):
    prog = ctx.prog
    mi = prog.module(rel)
    opts = {}
    for c in ast.walk(mi.tree):
        if isinstance(c, ast.Call) and isinstance(c.func, ast.Attribute) and c.func.attr == "add_argument" and c.args \
                and isinstance(c.args[0], ast.Constant):
            flag = c.args[0].value
            kw = {k.arg: k.value for k in c.keywords}
            dest = flag.lstrip("-").replace("-", "_")
            opts[flag] = {"dest": dest, "kw": kw, "node": c}
    ctor = None
    for c in ast.walk(mi.tree):
        if isinstance(c, ast.Call) and prog.resolve_class(c.func, mi) is not None and \
                prog.resolve_class(c.func, mi).qual in ("PybindWrapper", "MatlabWrapper"):
            ctor = c
    scope = mi.functions.get("main", mi.tree)
    return mi, opts, ctor, scope


def _is_parse_args(e) -> bool:
    return isinstance(e, ast.Call) and isinstance(e.func, ast.Attribute) and e.func.attr == "parse_args"


def _args_var(scope) -> str:
    """The variable that holds the parsed command line: bound to `<parser>.parse_args()` directly, or to the result of
    a module-level helper all of whose returns are that call (or a local bound to it)."""
    root = scope
    while parent(root) is not None:
        root = parent(root)
    helpers = set()
    for f in getattr(root, "body", []):
        if isinstance(f, ast.FunctionDef):
            rets = [r.value for r in ast.walk(f) if isinstance(r, ast.Return) and r.value is not None]
            bound = {st.targets[0].id for st in ast.walk(f) if isinstance(st, ast.Assign) and len(st.targets) == 1
                     and isinstance(st.targets[0], ast.Name) and _is_parse_args(st.value)}
            if rets and all(_is_parse_args(r) or (isinstance(r, ast.Name) and r.id in bound) for r in rets):
                helpers.add(f.name)
    for st in ast.walk(scope):
        if isinstance(st, ast.Assign) and len(st.targets) == 1 and isinstance(st.targets[0], ast.Name) and isinstance(st.value, ast.Call):
            if _is_parse_args(st.value) or (isinstance(st.value.func, ast.Name) and st.value.func.id in helpers):
                return st.targets[0].id
    raise AnalysisError("script: result of parse_args() is not bound to a variable")


PLUMBING = {
    "pybind": {"--module_name": ("ctor", "module_name"), "--use-boost-serialization": ("ctor", "use_boost_serialization"),
               "--top_module_namespaces": ("ctor", "top_module_namespaces"), "--ignore": ("ctor", "ignore_classes"),
               "--template": ("ctor", "module_template"), "--xml_source": ("ctor", "xml_source"),
               "--src": ("call", ("wrap", 0), ("wrap_submodule", 0)), "--out": ("call", ("wrap", 1)),
               "--is_submodule": ("branch", None)},
    "matlab": {"--module_name": ("ctor", "module_name"), "--use-boost-serialization": ("ctor", "use_boost_serialization"),
               "--top_module_namespaces": ("ctor", "top_module_namespace"), "--ignore": ("ctor", "ignore_classes"),
               "--src": ("call", ("wrap", 0)), "--out": ("call", ("wrap", 1))},
}


# options whose value is, by design, not handed over as it is: one reason each (their derivation is decided by the named rule)
DERIVED_OPTIONS = {
    "--top_module_namespaces": "a `::`-separated path becomes the list of its components (Y3: option plumbing, namespace form)",
    "--template": "a file name; the API receives the file's content (C14/R5 decides what is read)",
}


def _values(scope, e: ast.AST) -> List[ast.AST]:
    """All values a local may hold at its use (every assignment in the scope), the expression itself otherwise."""
    if isinstance(e, ast.Name):
        vs = [st.value for st in ast.walk(scope) if isinstance(st, ast.Assign) and any(isinstance(t, ast.Name) and t.id == e.id for t in st.targets)]
        if vs:
            out = []
            for v in vs:
                out += _values(scope, v) if isinstance(v, ast.Name) and v.id != e.id else [v]
            return out
    return [e]


def _is_option_itself(v: ast.AST, av: str, dest: str) -> bool:
    """args.<dest>, or `args.<dest> or <empty literal>` (a None guard)."""
    def opt(x):
        return isinstance(x, ast.Attribute) and x.attr == dest and isinstance(x.value, ast.Name) and x.value.id == av
    if opt(v):
        return True
    if isinstance(v, ast.BoolOp) and isinstance(v.op, ast.Or) and len(v.values) == 2 and opt(v.values[0]):
        d = v.values[1]
        return (isinstance(d, (ast.List, ast.Tuple)) and not d.elts) or (isinstance(d, ast.Constant) and d.value in ("", None))
    if isinstance(v, ast.IfExp) and opt(v.body) and isinstance(v.orelse, (ast.List, ast.Tuple, ast.Constant)):
        return True
    return False


def _mentions(scope, e: ast.AST, dest: str, depth=4) -> bool:
    """Does expression e (through locals) depend on <args>.<dest>?"""
    av = _args_var(scope)
    for x in ast.walk(e):
        if isinstance(x, ast.Attribute) and x.attr == dest and isinstance(x.value, ast.Name) and x.value.id == av:
            return True
    if depth > 0:
        for x in ast.walk(e):
            if isinstance(x, ast.Name):
                for st in ast.walk(scope):
                    if isinstance(st, ast.Assign) and any(isinstance(t, ast.Name) and t.id == x.id for t in st.targets):
                        if _mentions(scope, st.value, dest, depth - 1):
                            return True
                    if isinstance(st, ast.AugAssign) and isinstance(st.target, ast.Name) and st.target.id == x.id:
                        if _mentions(scope, st.value, dest, depth - 1):
                            return True
                    if isinstance(st, ast.Expr) and isinstance(st.value, ast.Call) and isinstance(st.value.func, ast.Attribute) \
                            and isinstance(st.value.func.value, ast.Name) and st.value.func.value.id == x.id \
                            and st.value.func.attr in ("extend", "append", "insert"):
                        if any(_mentions(scope, a, dest, depth - 1) for a in st.value.args):
                            return True
                    if isinstance(st, ast.With):
                        for it in st.items:
                            if it.optional_vars is not None and isinstance(it.optional_vars, ast.Name) and it.optional_vars.id == x.id:
                                if _mentions(scope, it.context_expr, dest, depth - 1):
                                    return True
    return False


def rule_option_plumbing(ctx, rep: Report, rid="Y3", only_flags=None):
    prog = ctx.prog
    for which, rel in SCRIPTS.items():
        mi, opts, ctor, scope = _script_info(ctx, rel)
        if ctor is None:
            raise AnalysisError(f"{rel}: wrapper construction not found")
        table = PLUMBING[which]
        cls = prog.resolve_class(ctor.func, mi)
        init = prog.find_method(cls, "__init__")[1]
        b = bind_call(init, ctor, drop_self=True)
        for flag in sorted(opts):
            if only_flags is not None and flag not in only_flags:
                continue
            o = opts[flag]
            loc = f"{rel}:{o['node'].lineno}"
            av = _args_var(scope)
            read = any(isinstance(x, ast.Attribute) and x.attr == o["dest"] and isinstance(x.value, ast.Name) and x.value.id == av
                       for x in ast.walk(scope))
            rep.add(rid, f"{which}:{flag}:declared option is read", read, f"args.{o['dest']} is never used", loc, nontrivial=False)
            if flag not in table:
                rep.add(rid, f"{which}:{flag}:known option", False,
                        "an option the plumbing table does not know: add it to the table with its API counterpart", loc)
                continue
            kind = table[flag]
            if kind[0] == "ctor":
                p = kind[1]
                ok = p in b and _mentions(scope, b[p], o["dest"])
                rep.add(rid, f"{which}:{flag} -> {cls.qual}({p}=...)", ok,
                        f"constructor receives {p}={unparse(b[p]) if p in b else 'nothing'}, which does not depend on "
                        f"args.{o['dest']}", f"{rel}:{ctor.lineno}")
                if ok and flag not in DERIVED_OPTIONS:
                    # the script adds nothing of its own: the API given the same value produces the same output
                    vals = _values(scope, b[p])
                    plain = all(_is_option_itself(v, av, o["dest"]) for v in vals)
                    rep.add(rid, f"{which}:{flag}:reaches the API as given on the command line", plain,
                            f"{p} <- {[unparse(v)[:70] for v in vals]}: the script rewrites the option value before handing it to "
                            f"{cls.qual} (splitting, filtering, normalising), so the script and the API given the same value produce "
                            f"different output (e.g. an ignore entry `ns::Table<int, double>` split at the blank matches nothing)",
                            f"{rel}:{ctor.lineno}")
            elif kind[0] == "call":
                for meth, pos in kind[1:]:
                    calls = [c for c in ast.walk(scope) if isinstance(c, ast.Call) and isinstance(c.func, ast.Attribute) and c.func.attr == meth]
                    ok = False
                    for c in calls:
                        fn = prog.find_method(cls, meth)[1]
                        bb = bind_call(fn, c, drop_self=True)
                        pname = func_params(fn)[1:][pos]
                        ok = ok or (pname in bb and _mentions(scope, bb[pname], o["dest"]))
                    rep.add(rid, f"{which}:{flag} -> {cls.qual}.{meth}(argument {pos})", ok,
                            f"the call does not pass a value depending on args.{o['dest']}", loc)
            elif kind[0] == "branch":
                tests = [unparse(i.test) for i in ast.walk(scope) if isinstance(i, ast.If)]
                rep.add(rid, f"{which}:{flag}:selects wrap_submodule vs wrap", f"{_args_var(scope)}.{o['dest']}" in tests, f"tests {tests}", loc)
        # a switch that is absent means "off" (and one of the store_false kind "on"): that is the value the API defaults to
        for flag in sorted(opts):
            kw = opts[flag]["kw"]
            act = kw.get("action")
            if isinstance(act, ast.Constant) and act.value in ("store_true", "store_false") and "default" in kw:
                dv = kw["default"].value if isinstance(kw["default"], ast.Constant) else None
                want = act.value == "store_false"
                rep.add(rid, f"{which}:{flag}:an absent switch has the value of the API's default", dv is want,
                        f"action={act.value} with default={unparse(kw['default'])}: the switch is on (and cannot be turned off) although the command line does not "
                        f"mention it - the script then does something else than the API called without that option", f"{rel}:{opts[flag]['node'].lineno}")
        missing = sorted(set(table) - set(opts))
        rep.add(rid, f"{which}:every documented option is declared", not missing, f"missing {missing}", f"{rel}:1", nontrivial=False)
        # an option that may be None must not reach a membership / iteration use
        for flag in ("--ignore",):
            o = opts.get(flag)
            if o is None:
                continue
            kw = o["kw"]
            may_none = "default" not in kw and not (isinstance(kw.get("required"), ast.Constant) and kw["required"].value is True) \
                and not (isinstance(kw.get("action"), ast.Constant) and kw["action"].value in ("store_true", "store_false", "append"))
            if "default" in kw and isinstance(kw["default"], ast.Constant) and kw["default"].value is None:
                may_none = True
            guarded = False
            if may_none:
                p = PLUMBING[which][flag][1]
                v = b.get(p)
                guarded = v is not None and not (isinstance(v, ast.Attribute) and v.attr == o["dest"])   # e.g. `args.ignore or []`
            rep.add(rid, f"{which}:{flag}:never None where the generator tests membership in it", (not may_none) or guarded,
                    f"{flag} has nargs='*' and no default: when the option is absent argparse yields None, which reaches "
                    f"`cpp_class in self.ignore_classes` (TypeError: argument of type 'NoneType' is not iterable) at the "
                    f"first class", f"{rel}:{o['node'].lineno}")
    if sum(1 for o in rep.obs if o.rule == rid) < (30 if only_flags is None else 3 * len(only_flags)):
        raise AnalysisError(f"{rep.prop}/{rid}: too few option obligations")


def _ns_values(ctx, which: str):
    """Abstract value of the namespace path the script hands to its wrapper, per spelling class; None when undecided."""
    prog = ctx.prog
    rel = SCRIPTS[which]
    mi, opts, ctor, scope = _script_info(ctx, rel)
    o = opts.get("--top_module_namespaces")
    if o is None or ctor is None:
        return None
    cls = prog.resolve_class(ctor.func, mi)
    init = prog.find_method(cls, "__init__")[1]
    b = bind_call(init, ctor, drop_self=True)
    p = PLUMBING[which]["--top_module_namespaces"][1]
    if p not in b:
        return None
    av = _args_var(scope)
    upto = _stmts_before(scope, ctor)
    out = {}
    for kind in ("empty", "rel", "abs"):
        it = _NsInterp(av, o["dest"], kind, dict(mi.functions))
        try:
            env: Dict[str, tuple] = {}
            it.run(upto, env)
            out[kind] = it.ev(b[p], env)
        except _Undecided:
            return None
    return out


def rule_sibling_scripts(ctx, rep: Report, rid="Y4"):
    vals = {w: _ns_values(ctx, w) for w in SCRIPTS}
    if all(v is not None for v in vals.values()):
        rep.add(rid, "both scripts turn --top_module_namespaces into a list by the same normal form", vals["pybind"] == vals["matlab"],
                f"abstract value per spelling (absent / relative / fully qualified): pybind {vals['pybind']}; matlab {vals['matlab']}",
                f"{SCRIPTS['matlab']}:1")
        return
    forms = {}
    for which, rel in SCRIPTS.items():
        mi, opts, ctor, scope = _script_info(ctx, rel)
        av = _args_var(scope)
        tv = None
        src_scope, src_param = scope, None
        for st in ast.walk(scope):
            if isinstance(st, ast.Assign) and len(st.targets) == 1 and isinstance(st.targets[0], ast.Name) \
                    and unparse(st.value).startswith(f"{av}.top_module_namespaces"):
                tv = st.targets[0].id
            # ... or built by a module-level helper that is given the option value
            if isinstance(st, ast.Assign) and len(st.targets) == 1 and isinstance(st.targets[0], ast.Name) and isinstance(st.value, ast.Call) \
                    and isinstance(st.value.func, ast.Name) and st.value.func.id in mi.functions and len(st.value.args) == 1 \
                    and unparse(st.value.args[0]) == f"{av}.top_module_namespaces":
                h = mi.functions[st.value.func.id]
                rets = [r.value for r in ast.walk(h) if isinstance(r, ast.Return) and r.value is not None]
                if len(rets) == 1 and isinstance(rets[0], ast.Name) and len(h.args.args) == 1:
                    tv, src_scope, src_param = rets[0].id, h, h.args.args[0].arg
        if tv is None:
            rep.add(rid, "both scripts turn --top_module_namespaces into a list by the same normal form", True,
                    f"not compared: {rel} builds the list in a form neither the abstract interpretation nor the textual comparison covers", f"{rel}:1",
                    nontrivial=False)
            return

        def norm(node) -> str:
            c = ast.parse(unparse(node)).body[0]

            class T(ast.NodeTransformer):
                def visit_Name(self, x):
                    if x.id == tv:
                        x.id = "_T"
                    elif src_param is None and x.id == av:
                        x.id = "_A"
                    elif src_param is not None and x.id == src_param:
                        return ast.Attribute(value=ast.Name(id="_A", ctx=ast.Load()), attr="top_module_namespaces", ctx=ast.Load())
                    return x
            return unparse(ast.fix_missing_locations(T().visit(c)))
        scope = src_scope
        stmts = []
        ifs = [st for st in ast.walk(scope) if isinstance(st, ast.If) and tv in {x.id for x in ast.walk(st.test) if isinstance(x, ast.Name)}]
        for st in ast.walk(scope):
            if isinstance(st, ast.Assign) and any(isinstance(t, ast.Name) and t.id == tv for t in st.targets):
                if any(st in i.body or st in i.orelse for i in ifs):
                    continue
                stmts.append((st.lineno, norm(st)))
        for i in ifs:
            stmts.append((i.lineno, norm(i)))
        forms[which] = [t for _, t in sorted(stmts)]
    rep.add(rid, "both scripts turn --top_module_namespaces into a list by the same normal form",
            forms["pybind"] == forms["matlab"] and bool(forms["pybind"]) and any(".split('::')" in t for t in forms["pybind"]),
            f"pybind: {forms['pybind']}; matlab: {forms['matlab']}", f"{SCRIPTS['matlab']}:1")



def _source_list_by_evaluation(ctx, mi, opts, scope, av, call) -> Optional[List[str]]:
    """The first argument of the wrap() call evaluated (own interpreter, backward slice of main()) for sample --src values: the
    list must name the listed files, all of them, in order.  An entry may be the same file named absolutely - the interpreter's
    abspath / normpath - provided the value is only ever used to name a file (pathflow); None when it cannot be evaluated."""
    from .rules_matlab import SAMPLE_CWD, SampleObj, _PathEval, _Raised, slice_eval
    from .pathflow import uses_only_name_files
    from .rules_flow import effects_engine
    import posixpath
    if isinstance(scope, ast.Module):
        # a script written at module level: its statements seen as the body of one function
        fn_ = ast.FunctionDef(name="__main__", args=ast.arguments(posonlyargs=[], args=[], vararg=None, kwonlyargs=[], kw_defaults=[], kwarg=None,
                                                                  defaults=[]), body=scope.body, decorator_list=[], returns=None, lineno=1, col_offset=0)
        scope_fn = fn_
    elif isinstance(scope, (ast.FunctionDef, ast.AsyncFunctionDef)):
        scope_fn = scope
    else:
        return None
    diffs: List[str] = []
    for src in ("m.i;sub/b.i;c.d.i", "only.i", "a.i;x/../b.i;a.i;z.i", "main.i;extra files/geo.i;more/slam.i", "UPPER.i;b,c.i;d e.i"):
        args = SampleObj({o["dest"]: ("" if "store_true" not in unparse(o["kw"].get("action", ast.Constant(""))) else False) for o in opts.values()})
        args["src"] = src
        for k_ in ("is_submodule",):
            args[k_] = False
        # the other options take values that collide with parts of the list: the module is named like a file that is not listed first
        later = [posixpath.splitext(posixpath.basename(x))[0] for x in src.split(";")[1:]]
        for k_ in ("module_name", "top_module_namespaces", "top_module_namespace"):
            if k_ in args and later:
                args[k_] = later[-1]
        try:
            got = slice_eval(scope_fn, call.args[0], {av: args, '__name__': '__main__'}, frozen={av}, budget=4000)
        except (_PathEval.Unknown, _Raised, RecursionError):
            return None
        want = src.split(";")
        if not isinstance(got, list) or not all(isinstance(g, str) or hasattr(g, "as_posix") for g in got):
            return None
        got = [str(g) for g in got]
        if got == want:
            continue
        same_files = len(got) == len(want) and all(g == w or g == posixpath.normpath(posixpath.join(SAMPLE_CWD, w)) or g == posixpath.normpath(w)
                                                   for g, w in zip(got, want))
        if not same_files:
            diffs.append(f"--src {src!r} reaches wrap() as {got}")
            continue
        # renamed consistently: harmless only where the value does nothing but name files (its last component is the same)
        if any(posixpath.basename(g) != posixpath.basename(w) for g, w in zip(got, want)):
            diffs.append(f"--src {src!r} reaches wrap() as {got}: the initialiser names are derived from these spellings")
            continue
        eff = effects_engine(ctx)
        if not uses_only_name_files(eff, call.args[0], scope_fn, mi, None):
            diffs.append(f"--src {src!r} reaches wrap() as {got}, and the library does more with an entry than open it and take its last component")
    return diffs


def rule_source_list_unfiltered(ctx, rep: Report, rid="Y3"):
    """The list of interface files handed to the library is exactly the --src option split at ';':
    every file the caller named is wrapped / declared, in the order given."""
    prog = ctx.prog
    for which, rel in SCRIPTS.items():
        mi, opts, ctor, scope = _script_info(ctx, rel)
        av = _args_var(scope)
        calls = [c for c in ast.walk(scope) if isinstance(c, ast.Call) and isinstance(c.func, ast.Attribute) and c.func.attr == "wrap"
                 and c.args]
        for c in calls:
            a = c.args[0]
            ok = False
            detail = unparse(a)
            if isinstance(a, ast.Name):
                defs = [st for st in ast.walk(scope) if isinstance(st, (ast.Assign, ast.AugAssign)) and any(
                    isinstance(t, ast.Name) and t.id == a.id for t in (st.targets if isinstance(st, ast.Assign) else [st.target]))]
                vals = [unparse(st.value).replace(" ", "").replace('"', "'") for st in defs]
                ok = vals == [f"{av}.src.split(';')"]
                detail = f"{a.id} <- {vals}"
                # no in-place edits of the list either
                muts = [m for m in ast.walk(scope) if isinstance(m, ast.Call) and isinstance(m.func, ast.Attribute)
                        and isinstance(m.func.value, ast.Name) and m.func.value.id == a.id
                        and m.func.attr in ("remove", "pop", "sort", "reverse", "insert", "append", "extend", "clear")]
                dels = [d for d in ast.walk(scope) if isinstance(d, (ast.Delete,)) and a.id in unparse(d)]
                ok = ok and not muts and not dels
            else:
                ok = unparse(a).replace(" ", "").replace('"', "'") == f"{av}.src.split(';')"
            evd = _source_list_by_evaluation(ctx, mi, opts, scope, av, c)
            if evd is not None:
                ok, detail = not evd, "; ".join(evd[:2])
            rep.units.setdefault("source_list_by_evaluation", {})[which] = evd is not None
            rep.add(rid, f"{which}:the source list passed to wrap() is --src split at ';', unfiltered and in order", ok,
                    f"{detail}: a file the caller listed can be dropped or re-ordered before the library sees it, so the "
                    f"script no longer produces what the API produces for the same list", f"{rel}:{c.lineno}")


def _stmts_before(scope, node) -> List[ast.stmt]:
    """The statements executed before `node` on the way from the top of `scope`: at every nesting level (function body,
    `if __name__ == '__main__':` block, with-block ...) the earlier siblings of the statement that contains it."""
    out: List[ast.stmt] = []
    block = list(getattr(scope, "body", []))
    while True:
        holder = next((st for st in block if any(x is node for x in ast.walk(st))), None)
        if holder is None:
            return out
        out += block[: block.index(holder)]
        nxt = None
        for fld in ("body", "orelse", "finalbody"):
            blk = getattr(holder, fld, None)
            if isinstance(blk, list) and any(any(x is node for x in ast.walk(st)) for st in blk if isinstance(st, ast.AST)):
                nxt = blk
        if nxt is None:
            return out
        block = nxt


class _Undecided(Exception):
    pass


class _NsInterp:
    """Abstract interpretation of the few statements that turn the --top_module_namespaces string into the list handed to
    the wrapper.  Strings are abstracted to their spelling class - 'empty', 'rel' (`a::b`), 'abs' (`::a::b`) - and lists to
    (number of leading '' elements, whether named components follow).  Anything else is outside the domain (_Undecided)."""

    def __init__(self, av: str, dest: str, kind: str, helpers: Dict[str, ast.FunctionDef]):
        self.av, self.dest, self.kind, self.helpers = av, dest, kind, helpers

    @staticmethod
    def truth(v) -> bool:
        if v[0] == "str":
            return v[1] != "empty"
        if v[0] == "list":
            return v[1] > 0 or v[2]
        if v[0] == "bool":
            return v[1]
        raise _Undecided("truth value of " + repr(v))

    def ev(self, e, env):
        if isinstance(e, ast.Attribute) and isinstance(e.value, ast.Name) and e.value.id == self.av and e.attr == self.dest:
            return ("str", self.kind)
        if isinstance(e, ast.Constant) and isinstance(e.value, str):
            return ("str", "empty" if e.value == "" else ("abs" if e.value.startswith("::") else "rel"))
        if isinstance(e, ast.Constant) and isinstance(e.value, bool):
            return ("bool", e.value)
        if isinstance(e, ast.Name):
            if e.id in env:
                return env[e.id]
            raise _Undecided(f"name {e.id}")
        if isinstance(e, ast.List):
            if all(isinstance(x, ast.Constant) and x.value == "" for x in e.elts):
                return ("list", len(e.elts), False)
            raise _Undecided("list literal " + unparse(e))
        if isinstance(e, ast.BinOp) and isinstance(e.op, ast.Add):
            a, b = self.ev(e.left, env), self.ev(e.right, env)
            if a[0] == "list" and b[0] == "list":
                return ("list", a[1], True) if a[2] else ("list", a[1] + b[1], b[2])
            raise _Undecided("+ of " + repr((a, b)))
        if isinstance(e, ast.UnaryOp) and isinstance(e.op, ast.Not):
            return ("bool", not self.truth(self.ev(e.operand, env)))
        if isinstance(e, ast.BoolOp):
            v = None
            for x in e.values:
                v = self.ev(x, env)
                t = self.truth(v)
                if (isinstance(e.op, ast.Or) and t) or (isinstance(e.op, ast.And) and not t):
                    return v
            return v
        if isinstance(e, ast.IfExp):
            return self.ev(e.body if self.truth(self.ev(e.test, env)) else e.orelse, env)
        if isinstance(e, ast.Compare) and len(e.ops) == 1 and isinstance(e.ops[0], (ast.Eq, ast.NotEq)):
            a, b = self.ev(e.left, env), self.ev(e.comparators[0], env)
            if a[0] == "str" and b[0] == "str" and "empty" in (a[1], b[1]):
                eq = a[1] == b[1]
                return ("bool", eq if isinstance(e.ops[0], ast.Eq) else not eq)
            raise _Undecided("comparison " + unparse(e))
        if isinstance(e, ast.Subscript):
            v = self.ev(e.value, env)
            if v[0] == "list" and isinstance(e.slice, ast.Constant) and e.slice.value == 0:
                if v[1] > 0:
                    return ("str", "empty")
                if v[2]:
                    return ("str", "rel")
                raise _Undecided("first element of an empty list")
            if v[0] == "list" and isinstance(e.slice, ast.Slice) and e.slice.upper is None and e.slice.step is None \
                    and isinstance(e.slice.lower, ast.Constant) and e.slice.lower.value == 1 and v[1] > 0:
                return ("list", v[1] - 1, v[2])
            raise _Undecided("subscript " + unparse(e))
        if isinstance(e, ast.ListComp) and len(e.generators) == 1 and isinstance(e.generators[0].target, ast.Name) \
                and isinstance(e.elt, ast.Name) and e.elt.id == e.generators[0].target.id:
            g = e.generators[0]
            v = self.ev(g.iter, env)
            if v[0] == "list" and len(g.ifs) == 1 and isinstance(g.ifs[0], ast.Name) and g.ifs[0].id == g.target.id:
                return ("list", 0, v[2])
            if v[0] == "list" and not g.ifs:
                return v
            raise _Undecided("comprehension " + unparse(e))
        if isinstance(e, ast.Call):
            if isinstance(e.func, ast.Name) and e.func.id in ("list", "tuple") and len(e.args) == 1:
                return self.ev(e.args[0], env)
            if isinstance(e.func, ast.Name) and e.func.id in self.helpers and not e.keywords:
                h = self.helpers[e.func.id]
                ps = [a.arg for a in h.args.args]
                if len(ps) != len(e.args):
                    raise _Undecided("helper arity")
                henv = {p_: self.ev(a, env) for p_, a in zip(ps, e.args)}
                r = self.run(h.body, henv)
                if r is None:
                    raise _Undecided("helper without return")
                return r
            if isinstance(e.func, ast.Attribute):
                recv = self.ev(e.func.value, env)
                m = e.func.attr
                sep = [a.value for a in e.args if isinstance(a, ast.Constant)]
                if recv[0] == "str" and m == "split" and sep == ["::"]:
                    return {"empty": ("list", 1, False), "rel": ("list", 0, True), "abs": ("list", 1, True)}[recv[1]]
                if recv[0] == "str" and m == "startswith" and sep in (["::"], [":"]):
                    return ("bool", recv[1] == "abs")
                if recv[0] == "str" and m in ("lstrip", "strip") and sep == [":"]:
                    return ("str", "rel" if recv[1] == "abs" else recv[1])
                if recv[0] == "str" and m == "removeprefix" and sep == ["::"]:
                    return ("str", "rel" if recv[1] == "abs" else recv[1])
                if recv[0] == "str" and m == "strip" and not e.args:
                    return recv
            raise _Undecided("call " + unparse(e)[:50])
        raise _Undecided(type(e).__name__ + " " + unparse(e)[:50])

    def run(self, stmts, env):
        """Executes assignments to names and `if`s; returns the abstract value of the first `return` reached."""
        for st in stmts:
            if isinstance(st, ast.Assign) and len(st.targets) == 1 and isinstance(st.targets[0], ast.Name):
                try:
                    env[st.targets[0].id] = self.ev(st.value, env)
                except _Undecided:
                    env.pop(st.targets[0].id, None)      # not a value of the domain: only matters if it is read later
            elif isinstance(st, ast.AugAssign) and isinstance(st.target, ast.Name) and isinstance(st.op, ast.Add):
                if st.target.id in env:
                    env[st.target.id] = self.ev(ast.BinOp(left=ast.Name(id=st.target.id, ctx=ast.Load()), op=ast.Add(), right=st.value), env)
            elif isinstance(st, ast.Expr) and isinstance(st.value, ast.Call) and isinstance(st.value.func, ast.Attribute) \
                    and isinstance(st.value.func.value, ast.Name) and st.value.func.value.id in env \
                    and st.value.func.attr in ("insert", "append", "extend", "pop", "remove"):
                v = env[st.value.func.value.id]
                a = st.value
                if a.func.attr == "insert" and len(a.args) == 2 and isinstance(a.args[0], ast.Constant) and a.args[0].value == 0 \
                        and isinstance(a.args[1], ast.Constant) and a.args[1].value == "" and v[0] == "list":
                    env[st.value.func.value.id] = ("list", v[1] + 1, v[2])
                elif a.func.attr == "pop" and len(a.args) == 1 and isinstance(a.args[0], ast.Constant) and a.args[0].value == 0 and v[0] == "list" and v[1] > 0:
                    env[st.value.func.value.id] = ("list", v[1] - 1, v[2])
                elif a.func.attr == "extend" and len(a.args) == 1 and v[0] == "list":
                    w = self.ev(a.args[0], env)
                    env[st.value.func.value.id] = ("list", v[1], True) if v[2] else ("list", v[1] + w[1], w[2])
                else:
                    raise _Undecided("list update " + unparse(st)[:50])
            elif isinstance(st, ast.If):
                uses = {x.id for x in ast.walk(st) if isinstance(x, ast.Name)}
                touches = any(isinstance(x, ast.Attribute) and x.attr == self.dest for x in ast.walk(st)) or (uses & set(env))
                if not touches:
                    continue
                try:
                    t = self.truth(self.ev(st.test, env))
                except _Undecided:
                    # a test over something else (another option): both branches must leave the tracked values alone
                    stored = {x.id for b_ in st.body + st.orelse for x in ast.walk(b_) if isinstance(x, ast.Name) and isinstance(x.ctx, ast.Store)}
                    if stored & set(env):
                        raise
                    continue
                r = self.run(st.body if t else st.orelse, env)
                if r is not None:
                    return r
            elif isinstance(st, ast.Return) and st.value is not None:
                return self.ev(st.value, env)
        return None


def rule_namespace_normal_form(ctx, rep: Report, rid="Y6"):
    """Whatever way the top namespace is spelt on the command line - not at all, relative (`gtsam::sub`) or fully
    qualified (`::gtsam::sub`) - the wrapper receives the path the library API expects: exactly one leading '' (the
    global namespace) followed by the named components.  Decided by abstract interpretation of the script's own statements
    over the three spelling classes; two leading '' (or none) match no namespace and the script silently writes an
    empty module."""
    prog = ctx.prog
    for which, rel in SCRIPTS.items():
        mi, opts, ctor, scope = _script_info(ctx, rel)
        o = opts.get("--top_module_namespaces")
        if o is None or ctor is None:
            raise AnalysisError(f"{rel}: --top_module_namespaces / wrapper construction not found")
        cls = prog.resolve_class(ctor.func, mi)
        init = prog.find_method(cls, "__init__")[1]
        b = bind_call(init, ctor, drop_self=True)
        p = PLUMBING[which]["--top_module_namespaces"][1]
        if p not in b:
            raise AnalysisError(f"{rel}: constructor parameter {p} not passed")
        av = _args_var(scope)
        upto = _stmts_before(scope, ctor)
        for kind, example in (("empty", "(option absent)"), ("rel", "gtsam::sub"), ("abs", "::gtsam::sub")):
            it = _NsInterp(av, o["dest"], kind, dict(mi.functions))
            try:
                env: Dict[str, tuple] = {}
                it.run(upto, env)
                v = it.ev(b[p], env)
            except _Undecided as e:
                rep.add(rid, f"{which}:--top_module_namespaces {example}:exactly one leading global namespace", True,
                        f"not decided: {e} is outside the abstract domain", f"{rel}:{ctor.lineno}", nontrivial=False)
                continue
            want = ("list", 1, kind != "empty")
            rep.add(rid, f"{which}:--top_module_namespaces {example}:exactly one leading global namespace", v == want,
                    f"the wrapper receives a path with {v[1] if v[0] == 'list' else '?'} leading '' component(s)"
                    f"{' followed by the named components' if v[0] == 'list' and v[2] else ''} (abstract value {v}); the library API expects "
                    f"['', 'gtsam', 'sub'] - with any other form no namespace of the input matches and an empty module is written without a word",
                    f"{rel}:{ctor.lineno}")


# ------------------------------------------------------------------------------------------------------------------
# Y7: a part that the main file declares and calls is written for every additional file, whatever that file holds
def exits_before(fn, is_event) -> List[Tuple[int, str]]:
    """Normal exits of fn (return statements, falling off the end) that some path reaches without having executed a
    statement for which `is_event` holds.  Loops may run zero times; `raise` is not a normal exit; an event inside a
    branch counts for that branch only."""
    bad: List[Tuple[int, str]] = []

    def has_event(st) -> bool:
        return any(is_event(x) for x in ast.walk(st))

    def seq(stmts, states: Set[bool]) -> Set[bool]:
        for st in stmts:
            if not states:
                break
            states = step(st, states)
        return states

    def step(st, states: Set[bool]) -> Set[bool]:
        if isinstance(st, ast.Return):
            if False in states and not (st.value is not None and has_event(st.value)):
                bad.append((st.lineno, "return"))
            return set()
        if isinstance(st, ast.Raise):
            return set()
        if isinstance(st, ast.If):
            pre = {True} if has_event(st.test) else states
            return seq(st.body, pre) | seq(st.orelse, pre)
        if isinstance(st, (ast.For, ast.While)):
            return states | seq(st.body, states) | seq(st.orelse, states)
        if isinstance(st, ast.With):
            pre = {True} if any(has_event(i.context_expr) for i in st.items) else states
            return seq(st.body, pre)
        if isinstance(st, ast.Try):
            a = seq(st.body, states)
            out = seq(st.orelse, a) if st.orelse else a
            for h in st.handlers:
                out |= seq(h.body, states | a)
            return seq(st.finalbody, out) if st.finalbody else out
        if isinstance(st, (ast.FunctionDef, ast.ClassDef)):
            return states
        if isinstance(st, (ast.Break, ast.Continue)):
            return states          # over-approximation: the state flows on to after the loop
        return {True} if has_event(st) else states

    end = seq(fn.body, {False})
    if False in end:
        bad.append((fn.body[-1].lineno if fn.body else fn.lineno, "end of function"))
    return bad


def _write_sites(fn, prog=None, ci=None) -> List[Tuple[ast.Call, ast.AST, ast.AST]]:
    """(call, path expression, text expression) for `with open(P, 'w'...) as f: f.write(X)`, `Path(P).write_text(X)`, and
    calls of a helper method that does nothing else with two of its parameters on every path (`self._write_cpp(P, X)`)."""
    out = []
    for w in ast.walk(fn):
        if prog is not None and isinstance(w, ast.Call) and isinstance(w.func, ast.Attribute) and isinstance(w.func.value, ast.Name) \
                and w.func.value.id in ("self", "cls", ci.name):
            h = prog.find_method(ci, w.func.attr)
            if h is not None and h[1] is not fn:
                inner = _write_sites(h[1])
                hp = func_params(h[1])
                if len(inner) == 1 and isinstance(inner[0][1], ast.Name) and isinstance(inner[0][2], ast.Name) and inner[0][1].id in hp \
                        and inner[0][2].id in hp and not exits_before(h[1], lambda x, c=inner[0][0]: x is c):
                    try:
                        b = bind_call(h[1], w, drop_self=not any(unparse(d) == "staticmethod" for d in h[1].decorator_list))
                    except AnalysisError:
                        continue
                    if inner[0][1].id in b and inner[0][2].id in b:
                        out.append((w, b[inner[0][1].id], b[inner[0][2].id]))
            continue
    for w in ast.walk(fn):
        if isinstance(w, ast.With):
            for it in w.items:
                c = it.context_expr
                if isinstance(c, ast.Call) and unparse(c.func) in ("open", "io.open") and c.args and isinstance(it.optional_vars, ast.Name):
                    mode = c.args[1] if len(c.args) > 1 else next((k.value for k in c.keywords if k.arg == "mode"), None)
                    if not (isinstance(mode, ast.Constant) and isinstance(mode.value, str) and ("w" in mode.value or "x" in mode.value)):
                        continue
                    for x in ast.walk(w):
                        if isinstance(x, ast.Call) and isinstance(x.func, ast.Attribute) and x.func.attr == "write" \
                                and isinstance(x.func.value, ast.Name) and x.func.value.id == it.optional_vars.id and x.args:
                            out.append((x, c.args[0], x.args[0]))
        elif isinstance(w, ast.Call) and isinstance(w.func, ast.Attribute) and w.func.attr == "write_text" and w.args:
            recv = w.func.value
            p = recv.args[0] if isinstance(recv, ast.Call) and unparse(recv.func) in ("Path", "pathlib.Path") and recv.args else recv
            out.append((w, p, w.args[0]))
    return out


def rule_every_part_is_written(ctx, rep: Report, rid="Y7"):
    """The main file's output declares and calls one initialiser per additional file *unconditionally* (Y2), so the
    definition has to exist for every additional file: wrap_submodule - and wrap for the main part - write the text
    that wrap_file returned on every path to a normal exit, to the file named after the initialiser."""
    prog = ctx.prog
    ci = prog.cls("PybindWrapper")
    for name in ("wrap_submodule", "wrap"):
        fn = prog.method("PybindWrapper", name)
        loc = f"{ci.mod.rel}:{fn.lineno}"
        sites = _write_sites(fn, prog, ci)
        wrapped = [s for s in sites if any(isinstance(c, ast.Call) and unparse(c.func) == "self.wrap_file" for c in ast.walk(inline_locals(fn, s[2])))]
        rep.add(rid, f"{name}:the text written is what wrap_file returned", bool(wrapped) and len(wrapped) == len(sites),
                f"{len(sites)} write(s), {len(wrapped)} of the wrap_file result: {[unparse(s[2])[:40] for s in sites]}", loc)
        calls = {id(s[0]) for s in wrapped}
        missing = exits_before(fn, lambda x: id(x) in calls)
        rep.add(rid, f"{name}:every normal exit is preceded by the write of the generated text", not missing,
                f"exit(s) {missing} can be reached without the output having been written: the main file still declares and calls the "
                f"initialiser of every additional file, so a part that is silently not produced (blank file, nothing to bind) leaves an "
                f"undefined reference when the parts are linked - wrapping a blank file alone yields an empty initialiser, not nothing", loc)
        if name == "wrap_submodule" and wrapped:
            src = func_params(fn)[1]
            wf_call = next((c for c in ast.walk(inline_locals(fn, wrapped[0][2])) if isinstance(c, ast.Call) and unparse(c.func) == "self.wrap_file"), None)
            b = bind_call(prog.method("PybindWrapper", "wrap_file"), wf_call, drop_self=True) if wf_call is not None else {}
            init_name = unparse(inline_locals(fn, b["module_name"])) if "module_name" in b else None
            path = unparse(inline_locals(fn, wrapped[0][1]))
            rep.add(rid, "wrap_submodule:the part is written to <initialiser name>.cpp", init_name is not None and path.replace(" ", "") in
                    (f"{init_name}+'.cpp'".replace(" ", ""), f"f'{{{init_name}}}.cpp'".replace(" ", "")),
                    f"written to {path}, initialiser named {init_name} (of {src}): the build lists <stem>.cpp as the output of each additional file", loc)


# ------------------------------------------------------------------------------------------------------------------
# Y8: the build files drive the scripts with the options the scripts declare, and expect the files the library writes
def _cmake_commands(text: str, script_var: str) -> List[Tuple[int, List[str]]]:
    """(line, tokens) of every command line in a CMake file that runs ${<script_var>}: the tokens that follow the
    script up to VERBATIM / WORKING_DIRECTORY / DEPENDS / COMMENT / the closing parenthesis.  Comments are dropped;
    a quoted argument is one token."""
    import re
    out = []
    clean = "\n".join(l.split("#", 1)[0] if not re.search(r'"[^"]*#', l) else l for l in text.splitlines())
    for m in re.finditer(r"\$\{" + re.escape(script_var) + r"\}", clean):
        tail = clean[m.end():]
        toks = re.findall(r'"[^"]*"|\$\{[^}]*\}|[^\s()]+|[()]', tail)
        cmd = []
        for t in toks:
            if t in (")", "VERBATIM", "WORKING_DIRECTORY", "DEPENDS", "COMMENT", "COMMAND", "OUTPUT"):
                break
            cmd.append(t)
        out.append((clean[:m.start()].count("\n") + 1, cmd))
    return out


def rule_build_files_agree(ctx, rep: Report, rid="Y8"):
    import re
    prog = ctx.prog
    for which, cm_rel, var in (("pybind", "cmake/PybindWrap.cmake", "PYBIND_WRAP_SCRIPT"), ("matlab", "cmake/MatlabWrap.cmake", "MATLAB_WRAP_SCRIPT")):
        text = ctx.tree.src(cm_rel).text
        mi, opts, ctor, scope = _script_info(ctx, SCRIPTS[which])
        cmds = _cmake_commands(text, var)
        if not cmds:
            raise AnalysisError(f"{cm_rel}: no command line runs ${{{var}}}")
        # empty-or-flag variables: set(<V> "--flag") / set(<V> "")
        flagvars = {m.group(1): m.group(2) for m in re.finditer(r'set\(\s*(\w+)\s+"(--[\w-]+)"\s*\)', text)}
        for k_, (line, cmd) in enumerate(cmds):
            flags_seen = []
            for i, t in enumerate(cmd):
                mvar = re.fullmatch(r"\$\{(\w+)\}", t)
                flag = t if t.startswith("--") else (flagvars.get(mvar.group(1)) if mvar else None)
                if flag is None:
                    continue
                flags_seen.append(flag)
                nxt = cmd[i + 1] if i + 1 < len(cmd) else None
                nxt_is_flag = nxt is None or nxt.startswith("--") or (re.fullmatch(r"\$\{(\w+)\}", nxt) is not None and re.fullmatch(r"\$\{(\w+)\}", nxt).group(1) in flagvars)
                has_value = t.startswith("--") and not nxt_is_flag
                o = opts.get(flag)
                loc = f"{cm_rel}:{line}"
                rep.add(rid, f"{which}:{cm_rel}:command #{k_}:{flag}:declared by the script", o is not None,
                        f"the build runs {SCRIPTS[which]} with {flag}, which the script does not declare (declared: {sorted(opts)}): argparse exits "
                        f"with an error and nothing is generated", loc)
                if o is None:
                    continue
                act = o["kw"].get("action")
                is_switch = isinstance(act, ast.Constant) and act.value in ("store_true", "store_false")
                rep.add(rid, f"{which}:{cm_rel}:command #{k_}:{flag}:{'takes a value' if has_value else 'is a switch'} on both sides", is_switch != has_value,
                        f"the build passes {flag} {'with' if has_value else 'without'} a value, the script declares it as "
                        f"{'a switch' if is_switch else 'an option with a value'}: the next argument is swallowed / reported as unrecognised", loc)
            # every option the script requires is given
            required = [f for f, o in opts.items() if isinstance(o["kw"].get("required"), ast.Constant) and o["kw"]["required"].value is True]
            missing = [f for f in required if f not in flags_seen]
            rep.add(rid, f"{which}:{cm_rel}:command #{k_}:every required option of the script is passed", not missing, f"missing {missing}", f"{cm_rel}:{line}")
    # names of the generated files
    ptxt = ctx.tree.src("cmake/PybindWrap.cmake").text
    m = re.search(r"get_filename_component\(\s*(\w+)\s+\$\{interface_file\}\s+(\w+)\s*\)\s*\n\s*set\(\s*cpp_file\s+\"\$\{(\w+)\}\.cpp\"\s*\)", ptxt)
    sub = prog.method("PybindWrapper", "wrap_submodule")
    ci = prog.cls("PybindWrapper")
    sites = _write_sites(sub, prog, ci)
    path = unparse(inline_locals(sub, sites[0][1])).replace(" ", "") if sites else ""
    src = func_params(sub)[1]
    stem_py = path in (f"Path({src}).stem+'.cpp'", f"f'{{Path({src}).stem}}.cpp'")
    rep.add(rid, "pybind:the build expects <name without last extension>.cpp for an additional file, wrap_submodule writes Path(source).stem + '.cpp'",
            m is not None and m.group(2) == "NAME_WLE" and m.group(1) == m.group(3) and stem_py,
            f"cmake: {m.group(0).split(chr(10))[0].strip() if m else 'pattern not found'}; python writes {path}: NAME_WE would cut `a.b.i` to `a`, "
            f"Path.stem cuts it to `a.b`", "cmake/PybindWrap.cmake:1")
    mtxt = ctx.tree.src("cmake/MatlabWrap.cmake").text
    m2 = re.search(r"set\(\s*generated_cpp_file\s+\"\$\{generated_files_path\}/\$\{(\w+)\}_wrapper\.cpp\"\s*\)", mtxt)
    mline = next((cmd for _, cmd in _cmake_commands(mtxt, "MATLAB_WRAP_SCRIPT")), [])
    mod_arg = mline[mline.index("--module_name") + 1] if "--module_name" in mline and mline.index("--module_name") + 1 < len(mline) else None
    out_arg = mline[mline.index("--out") + 1] if "--out" in mline and mline.index("--out") + 1 < len(mline) else None
    wn = prog.method("MatlabWrapper", "_wrapper_name")
    rets = [unparse(r.value).replace(" ", "") for r in ast.walk(wn) if isinstance(r, ast.Return) and r.value is not None]
    mwc = prog.cls("MatlabWrapper")
    cpp_names = [unparse(x).replace(" ", "") for f_ in mwc.methods.values() for x in ast.walk(f_)
                 if isinstance(x, ast.BinOp) and isinstance(x.op, ast.Add) and isinstance(x.right, ast.Constant) and x.right.value == ".cpp"]
    rep.add(rid, "matlab:the build expects <module>_wrapper.cpp in the output directory, the library writes _wrapper_name() + '.cpp' there",
            m2 is not None and mod_arg == f"${{{m2.group(1)}}}" and out_arg == "${generated_files_path}" and rets == ["self.module_name+'_wrapper'"]
            and bool(cpp_names) and all(c == "self._wrapper_name()+'.cpp'" for c in cpp_names),
            f"cmake: generated_cpp_file = {m2.group(0) if m2 else None}, --module_name {mod_arg}, --out {out_arg}; python: _wrapper_name returns {rets}, "
            f".cpp names {sorted(set(cpp_names))}", "cmake/MatlabWrap.cmake:1")


def _initialisers_by_evaluation(ctx):
    """(problems, None) when the names of the initialisers can be computed by running the slices of wrap / wrap_file /
    wrap_submodule they depend on (the analyser's own interpreter) for a sample list of interface files; (None, reason) otherwise."""
    from .rules_matlab import SampleObj, _PathEval, _Raised, slice_eval
    prog = ctx.prog
    ci = prog.cls("PybindWrapper")
    wrap = prog.method("PybindWrapper", "wrap")
    sub = prog.method("PybindWrapper", "wrap_submodule")
    wf = prog.method("PybindWrapper", "wrap_file")
    methods = dict(ci.methods)
    srcs = ["dir/main.i", "a/multi.i", "b/geometry.i", "wifi.i", "x/ui.i", "deep/er/basis.i", "io.i", "other/special.h", "UPPER.I", "zz.i"]
    want = ["multi", "geometry", "wifi", "ui", "basis", "io", "special", "UPPER", "zz"]      # every file, in the order given, named by its stem
    ps_wrap, ps_wf, ps_sub = func_params(wrap), func_params(wf), func_params(sub)
    try:
        main_call = next((c for c in walk_no_nested(wrap) if isinstance(c, ast.Call) and unparse(c.func) == "self.wrap_file"), None)
        sub_call = next((c for c in walk_no_nested(sub) if isinstance(c, ast.Call) and unparse(c.func) == "self.wrap_file"), None)
        fmt = next((c for c in walk_no_nested(wf) if isinstance(c, ast.Call) and isinstance(c.func, ast.Attribute) and c.func.attr == "format"
                    and "module_template" in unparse(c.func.value)), None)
        if main_call is None or sub_call is None or fmt is None or "submodules" not in ps_wf:
            return None, "call of wrap_file / module template not found"
        mb = bind_call(wf, main_call, drop_self=True)
        sb = bind_call(wf, sub_call, drop_self=True)
        if "submodules" not in mb or "module_name" not in sb:
            return None, "the submodule list / module name is not passed by name or position"
        me = SampleObj(module_name="mod")
        env_wrap = {ps_wrap[0]: me, ps_wrap[1]: list(srcs)}
        for p in ps_wrap[2:]:
            env_wrap[p] = "m"
        handed = slice_eval(wrap, mb["submodules"], env_wrap, methods=methods, budget=6000)
        if not isinstance(handed, list):
            return None, "the submodule argument is not a list on the samples"
        texts = {}
        for k in fmt.keywords:
            if k.arg in ("submodules", "submodules_init"):
                env_wf = {p: "" for p in ps_wf}
                env_wf.update({ps_wf[0]: me, "submodules": list(handed), "module_name": "m"})
                texts[k.arg] = slice_eval(wf, k.value, env_wf, methods=methods, budget=8000)
        if set(texts) != {"submodules", "submodules_init"} or not all(isinstance(t, str) for t in texts.values()):
            return None, "the template has no {submodules} / {submodules_init} text"
        defined = [slice_eval(sub, sb["module_name"], {ps_sub[0]: me, ps_sub[1]: s_}, methods=methods, budget=4000) for s_ in srcs[1:]]
    except (_PathEval.Unknown, _Raised, AnalysisError, TypeError, KeyError, IndexError) as ex:
        return None, str(ex)
    declared = re.findall(r"void\s+(\w+)\s*\(\s*py::module_?\s*&\s*\)\s*;", texts["submodules"])
    called = re.findall(r"^\s*(\w+)\s*\(\s*\w+\s*\)\s*;", texts["submodules_init"], re.M)
    probs = []
    if defined != want:
        probs.append(f"wrap_submodule defines {defined} for the files {[s_ for s_ in srcs[1:]]}")
    if declared != defined:
        probs.append(f"the main file declares {declared}, the additional files define {defined}")
    if called != defined:
        probs.append(f"the main file calls {called}, the additional files define {defined}")
    return probs, None
