"""Parse-action analysis on the grammar IR: what each action reads from its tokens, which
constructor it calls and how arguments bind (used by C01 G1/G2/G3/F1, C07 V2)."""
from __future__ import annotations

import ast
from typing import Dict, List, Optional, Set, Tuple

from .core import AnalysisError
from .grammar import (GNode, Grammar, LambdaVal, Scope, VARIABLE_TERMINALS, is_constant)
from .prog import Program, ClassInfo, bind_call, func_params, parent, unparse, walk_no_nested

WHOLE_METHODS = {"asList", "as_list", "asDict", "as_dict", "copy", "dump"}
REPETITIONS = {"ZeroOrMore", "OneOrMore", "DelimitedList"}
CHOICE = {"Or", "MatchFirst", "Optional", "ZeroOrMore", "OneOrMore", "DelimitedList", "Each"}


class Reads:
    def __init__(self):
        self.names: Set[str] = set()
        self.whole = False
        self.positional: List[str] = []     # unparse of index / slice expressions
        self.unresolved: List[str] = []
        self.trace: List[str] = []

    def merge(self, o: "Reads"):
        self.names |= o.names
        self.whole = self.whole or o.whole
        self.positional += o.positional
        self.unresolved += o.unresolved
        self.trace += o.trace


def positional_cover(exprs: List[str]) -> bool:
    """Do the given index/slice expressions (source text, constants only) partition every
    list of length 1..6?  Evaluated on abstract positions, not on repository code."""
    if not exprs:
        return False
    for n in range(1, 7):
        cnt = [0] * n
        for e in exprs:
            try:
                tree = ast.parse(f"x[{e}]", mode="eval").body
                sl = tree.slice
                idx = list(range(n))
                if isinstance(sl, ast.Slice):
                    def c(v):
                        return None if v is None else ast.literal_eval(v)
                    got = idx[slice(c(sl.lower), c(sl.upper), c(sl.step))]
                else:
                    got = [idx[ast.literal_eval(sl)]]
            except Exception:
                return False
            for g in got:
                cnt[g] += 1
        if any(c != 1 for c in cnt):
            return False
    return True


class ActionAnalyzer:
    def __init__(self, prog: Program, g: Grammar):
        self.prog = prog
        self.g = g

    # ------------------------------------------------------------------ reads
    def reads_of_lambda(self, lv: LambdaVal) -> Reads:
        node = lv.node
        if isinstance(node, ast.Lambda):
            params = [a.arg for a in node.args.args]
            body = node.body
        else:
            params = func_params(node)
            body = node
        r = Reads()
        if not params:
            return r
        # pyparsing passes (s, loc, toks) right-aligned: the last parameter is the tokens
        tok = params[-1]
        self._reads_in(body, tok, lv.mi, lv.cls_qual, r, depth=0)
        return r

    def _reads_in(self, body, var: str, mi, cls_qual, r: Reads, depth: int):
        if depth > 4:
            r.unresolved.append("depth")
            r.whole = True
            return
        for n in ast.walk(body):
            if not (isinstance(n, ast.Name) and n.id == var and isinstance(n.ctx, ast.Load)):
                continue
            p = parent(n)
            if isinstance(p, ast.Attribute) and p.value is n:
                pp = parent(p)
                if p.attr in WHOLE_METHODS and isinstance(pp, ast.Call) and pp.func is p:
                    r.whole = True
                elif p.attr in ("get",) and isinstance(pp, ast.Call) and pp.func is p and pp.args and \
                        isinstance(pp.args[0], ast.Constant):
                    r.names.add(str(pp.args[0].value))
                else:
                    r.names.add(p.attr)
            elif isinstance(p, ast.Subscript) and p.value is n:
                if isinstance(p.slice, ast.Constant) and isinstance(p.slice.value, str):
                    r.names.add(p.slice.value)
                else:
                    r.positional.append(unparse(p.slice))
            elif isinstance(p, ast.Call) and (n in p.args or any(k.value is n for k in p.keywords)):
                tgt = self.resolve_callee(p, mi, cls_qual)
                if tgt is None:
                    fname = unparse(p.func)
                    if fname in ("isinstance", "len", "bool", "print", "repr", "str", "type"):
                        continue
                    if fname in ("list", "tuple"):
                        r.whole = True
                        continue
                    r.unresolved.append(fname)
                    r.whole = True
                    continue
                ci, fn, is_method = tgt
                try:
                    b = bind_call(fn, p, drop_self=is_method)
                except AnalysisError:
                    r.unresolved.append(unparse(p.func))
                    r.whole = True
                    continue
                for pname, argx in b.items():
                    if argx is n:
                        r.trace.append(f"{unparse(p.func)}({pname}=tokens)")
                        self._reads_in(fn, pname, ci.mod if ci else mi, ci.qual if ci else None, r,
                                       depth + 1)
            elif isinstance(p, ast.For) and p.iter is n:
                r.whole = True
            elif isinstance(p, ast.comprehension) and p.iter is n:
                r.whole = True
            elif isinstance(p, ast.Starred):
                r.whole = True
            elif isinstance(p, (ast.Return,)) or isinstance(p, ast.Assign):
                # returned / aliased as a whole
                r.whole = True
        if r.positional and positional_cover(r.positional):
            r.whole = True

    def resolve_callee(self, call: ast.Call, mi, cls_qual) -> Optional[Tuple[Optional[ClassInfo], ast.FunctionDef, bool]]:
        """(class, function, drop_self) for Cls(...), Cls.static(...), func(...)."""
        f = call.func
        ci = self.prog.resolve_class(f, mi)
        if ci is not None:
            m = self.prog.find_method(ci, "__init__")
            if m is None:
                return None
            return m[0], m[1], True
        if isinstance(f, ast.Attribute):
            ci = self.prog.resolve_class(f.value, mi)
            if ci is not None:
                m = self.prog.find_method(ci, f.attr)
                if m is None:
                    return None
                decos = {unparse(d) for d in m[1].decorator_list}
                return m[0], m[1], not ("staticmethod" in decos)
        if isinstance(f, ast.Name) and f.id in mi.functions:
            return None, mi.functions[f.id], False
        return None

    # ------------------------------------------------------------------ action inventory
    def action_nodes(self, root: GNode) -> List[GNode]:
        return [n for n in self.g.reachable(root) if n.action is not None]

    def distinct_actions(self, root: GNode) -> List[GNode]:
        """One representative per (action lambda, children) pair."""
        seen = {}
        for n in self.action_nodes(root):
            key = (id(n.action.node), tuple(c.uid for c in n.children), n.kind)
            seen.setdefault(key, n)
        return sorted(seen.values(), key=lambda n: n.uid)

    def label(self, n: GNode) -> str:
        if n.label:
            return n.label
        if n.action is not None:
            cq = n.action.cls_qual or "?"
            return f"{cq}.<action>"
        return n.describe()

    # ------------------------------------------------------------------ constructed type
    def constructed_classes(self, lv: LambdaVal) -> Set[str]:
        """Class names an action can return (through factories' return statements)."""
        node = lv.node
        body = node.body if isinstance(node, ast.Lambda) else None
        out: Set[str] = set()
        if body is None or not isinstance(body, ast.Call):
            return out
        ci = self.prog.resolve_class(body.func, lv.mi)
        if ci is not None:
            return {ci.qual}
        tgt = self.resolve_callee(body, lv.mi, lv.cls_qual)
        if tgt is not None:
            _, fn, _ = tgt
            for n in walk_no_nested(fn):
                if isinstance(n, ast.Return) and isinstance(n.value, ast.Call):
                    mod = tgt[0].mod if tgt[0] else lv.mi
                    c2 = self.prog.resolve_class(n.value.func, mod)
                    if c2 is not None:
                        out.add(c2.qual)
        return out

    def constructor_calls(self, lv: LambdaVal) -> List[Tuple[ast.Call, ClassInfo, ast.FunctionDef, object, Dict[str, str]]]:
        """Constructor calls an action performs: directly, or inside the factory it calls.
        Returns (call, class, __init__, module, alias) where alias maps a local variable of the
        factory that stands for the tokens to 'TOKENS'."""
        node = lv.node
        out = []
        if not isinstance(node, ast.Lambda) or not isinstance(node.body, ast.Call):
            return out
        body = node.body
        tok = node.args.args[-1].arg if node.args.args else None
        ci = self.prog.resolve_class(body.func, lv.mi)
        if ci is not None:
            m = self.prog.find_method(ci, "__init__")
            if m is not None:
                out.append((body, ci, m[1], lv.mi, tok))
            return out
        tgt = self.resolve_callee(body, lv.mi, lv.cls_qual)
        if tgt is not None:
            fci, fn, drop = tgt
            try:
                b = bind_call(fn, body, drop_self=drop)
            except AnalysisError:
                return out
            tokparam = None
            for pname, argx in b.items():
                if isinstance(argx, ast.Name) and argx.id == tok:
                    tokparam = pname
            for n in walk_no_nested(fn):
                if isinstance(n, ast.Return) and isinstance(n.value, ast.Call):
                    mod = fci.mod if fci else lv.mi
                    c2 = self.prog.resolve_class(n.value.func, mod)
                    if c2 is not None:
                        m = self.prog.find_method(c2, "__init__")
                        if m is not None:
                            out.append((n.value, c2, m[1], mod, tokparam))
        return out

    # ------------------------------------------------------------------ grammar value types
    def value_types(self, n: GNode, _seen=None) -> Set[str]:
        """Set of class quals / 'str' that the tokens produced by n can contain."""
        _seen = _seen if _seen is not None else set()
        if n.uid in _seen:
            return set()
        _seen = _seen | {n.uid}
        if n.action is not None:
            cs = self.constructed_classes(n.action)
            return cs if cs else {"?"}
        if n.kind in ("Literal", "Keyword", "OriginalTextFor", "Combine") or n.kind in VARIABLE_TERMINALS:
            return {"str"}
        if n.kind in ("Suppress", "StringEnd", "Comment"):
            return set()
        out: Set[str] = set()
        for c in n.children:
            out |= self.value_types(c, _seen)
        return out


def info_points(scope: Scope):
    """Yield (node, ancestors, why) for every information point of a capture scope."""
    root = scope.root
    for n, anc in scope.members:
        path = anc + (n,)
        if anc and n.action is not None:
            yield n, anc, "nested node value"
            continue
        if n.kind == "Suppress":
            if not all(is_constant(c) for c in n.children):
                yield n, anc, "suppressed non-constant text"
            continue
        if n.kind in VARIABLE_TERMINALS or n.kind in ("OriginalTextFor", "Combine"):
            yield n, anc, "variable text"
            continue
        if n.kind in ("Literal", "Keyword"):
            # a constant carries information only as a choice / presence / count
            choice = [a for a in anc if a.kind in CHOICE]
            if n is root:
                continue
            if choice:
                # constant delimiters inside a repetition carry nothing; a literal is a choice
                # point only if the nearest choice ancestor can match something else instead
                near = choice[-1]
                if near.kind in ("Or", "MatchFirst", "Each") and len(near.children) > 1:
                    yield n, anc, f"alternative of {near.kind}"
                elif near.kind == "Optional":
                    # presence of a constant
                    sub = near.children[0]
                    if is_constant(sub):
                        yield n, anc, "presence of optional constant"
                    # else: the optional's non-constant part is an info point of its own
                elif near.kind in REPETITIONS and is_constant(near.children[0]):
                    yield n, anc, "repetition count of constant"
