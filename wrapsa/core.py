"""Core plumbing: source loading, obligations, report, known findings, evidence.

Everything here is stdlib only and never imports or executes code from the repository under
analysis: sources are read as text and parsed with ``ast``.
"""
from __future__ import annotations

import ast
import hashlib
import json
import os
import sys
import time
from dataclasses import dataclass, field
from typing import Dict, Iterable, List, Optional

VERIF = os.path.dirname(os.path.dirname(os.path.abspath(__file__)))
DEFAULT_REPO = os.environ.get("WRAPSA_REPO", "/repo")

PY_DIRS = ["gtwrap", "scripts"]


class AnalysisError(Exception):
    """The analyser cannot decide (anchor vanished, unmodelled construct, too few instances).

    Never reported as a violation: the driver prints ANALYSIS-ERROR and exits 2.
    """


class Source:
    def __init__(self, root: str, rel: str):
        self.root = root
        self.rel = rel
        self.path = os.path.join(root, rel)
        with open(self.path, "r", encoding="utf-8") as f:
            self.text = f.read()
        self.sha256 = hashlib.sha256(self.text.encode("utf-8")).hexdigest()
        self._tree: Optional[ast.Module] = None

    @property
    def tree(self) -> ast.Module:
        if self._tree is None:
            try:
                self._tree = ast.parse(self.text, filename=self.rel)
            except SyntaxError as e:  # pragma: no cover
                raise AnalysisError(f"{self.rel} does not parse: {e}")
            for node in ast.walk(self._tree):
                for child in ast.iter_child_nodes(node):
                    child._parent = node  # type: ignore[attr-defined]
        return self._tree


class Tree:
    """All sources of one checkout, loaded lazily; remembers what was consulted."""

    def __init__(self, root: str = DEFAULT_REPO):
        self.root = os.path.abspath(root)
        self._cache: Dict[str, Source] = {}
        if not os.path.isdir(os.path.join(self.root, "gtwrap")):
            raise AnalysisError(f"{self.root} is not a checkout of wrap (no gtwrap/)")

    def has(self, rel: str) -> bool:
        return os.path.isfile(os.path.join(self.root, rel))

    def src(self, rel: str) -> Source:
        if rel not in self._cache:
            if not self.has(rel):
                raise AnalysisError(f"anchor file vanished: {rel}")
            self._cache[rel] = Source(self.root, rel)
        return self._cache[rel]

    def py_files(self) -> List[str]:
        out = []
        for d in PY_DIRS:
            base = os.path.join(self.root, d)
            for dp, dn, fn in os.walk(base):
                dn[:] = sorted(x for x in dn if x != "__pycache__")
                for f in sorted(fn):
                    if f.endswith(".py"):
                        out.append(os.path.relpath(os.path.join(dp, f), self.root))
        return out

    def consulted(self) -> Dict[str, str]:
        return {rel: s.sha256 for rel, s in sorted(self._cache.items())}


@dataclass
class Ob:
    """One obligation = one rule instance on one construct."""
    rule: str
    construct: str
    ok: bool
    detail: str = ""
    loc: str = ""
    nontrivial: bool = True
    latent: bool = False  # reported in evidence, never decides the exit status

    def key(self):
        return (self.rule, self.construct)


@dataclass
class Report:
    prop: str
    obs: List[Ob] = field(default_factory=list)
    units: Dict[str, object] = field(default_factory=dict)
    notes: List[str] = field(default_factory=list)
    minima: Dict[str, int] = field(default_factory=dict)
    errors: List[str] = field(default_factory=list)

    def run(self, fn, *a, **k):
        """Run one rule; an AnalysisError is recorded (exit 2 unless a violation was found by the
        rules that did complete) instead of aborting the rules that follow."""
        try:
            return fn(*a, **k)
        except AnalysisError as e:
            self.errors.append(str(e))
            return None

    def add(self, rule, construct, ok, detail="", loc="", nontrivial=True, latent=False):
        self.obs.append(Ob(rule, construct, bool(ok), detail, loc, nontrivial, latent))
        return bool(ok)

    def require_min(self, rule: str, n: int):
        """No vacuous pass: rule must have examined at least n instances."""
        self.minima[rule] = n
        have = sum(1 for o in self.obs if o.rule == rule)
        if have < n:
            self.errors.append(
                f"{self.prop}/{rule}: only {have} instance(s) found, {n} confirmed by hand on the "
                f"pinned tree - anchor moved or analyser out of date")

    def failing(self) -> List[Ob]:
        seen = set()
        out = []
        for o in self.obs:
            if not o.ok and not o.latent and o.key() not in seen:
                seen.add(o.key())
                out.append(o)
        return out


def loc_of(src: Source, node) -> str:
    return f"{src.rel}:{getattr(node, 'lineno', 0)}"


# --------------------------------------------------------------------------------------------
# known findings

def load_known(path=None):
    path = path or os.path.join(VERIF, "known_findings.json")
    if not os.path.exists(path):
        return {"findings": [], "fixed": []}
    with open(path) as f:
        return json.load(f)


def known_index(known, prop):
    idx = {}
    for e in known.get("findings", []):
        if e["property"] == prop:
            idx[(e["rule"], e["construct"])] = e
    return idx


# --------------------------------------------------------------------------------------------
# evidence

def write_evidence(prop, tier, report: Report, tree: Tree, wall, violations, explanation,
                   assumptions, extra=None, known_hit=()):
    obs = report.obs
    total = len(obs)
    discharged = sum(1 for o in obs if o.ok)
    distinct_nt = len({o.key() for o in obs if o.nontrivial})
    samples = []
    per_rule = {}
    for o in obs:
        per_rule.setdefault(o.rule, {"instances": 0, "failing": 0})
        per_rule[o.rule]["instances"] += 1
        if not o.ok:
            per_rule[o.rule]["failing"] += 1
    seen_rules = set()
    for o in obs:
        if o.rule not in seen_rules or not o.ok:
            seen_rules.add(o.rule)
            samples.append({"rule": o.rule, "construct": o.construct, "ok": o.ok,
                            "detail": o.detail[:400], "loc": o.loc, "latent": o.latent})
    cov = {
        "explanation": explanation,
        "obligations": total,
        "discharged": discharged,
        "evaluations": total,
        "distinct_nontrivial": distinct_nt,
        "rule": "one evaluation = one rule instance on one source construct (file/function/"
                "call site/grammar node/template); non-trivial = its verdict needed binding, "
                "path, provenance or normal-form comparison, not mere existence; distinct = "
                "distinct (rule, construct) key",
        "samples": samples[:60],
        "per_rule": per_rule,
        "rule_minima": report.minima,
        "analysed_units": report.units,
        "consulted_sources_sha256": tree.consulted(),
        "known_findings_matched": [f"{r}:{c}" for (r, c) in known_hit],
        "notes": report.notes,
        "checker_cmd": f"./check {prop} {tier}",
        "trusted_base": ["CPython ast", "documented pyparsing 3.1 combinator semantics",
                         "clang 14 parser/Sema (C11/C18 only)", "str.format/textwrap semantics"],
        "exhaustive": True,
    }
    if extra:
        cov.update(extra)
    ev = {
        "property_id": prop,
        "tier": tier,
        "seed": int(os.environ.get("VERIF_SEED", "0") or 0),
        "level": "other",
        "coverage": cov,
        "assumptions": assumptions,
        "wall_s": round(wall, 3),
        "violations": violations,
    }
    d = os.path.join(VERIF, "evidence")
    os.makedirs(d, exist_ok=True)
    tmp = os.path.join(d, f".{prop}.json.tmp")
    with open(tmp, "w") as f:
        json.dump(ev, f, indent=1, sort_keys=False)
        f.write("\n")
    os.replace(tmp, os.path.join(d, f"{prop}.json"))
    return ev
