"""Program index (Engine F base): modules, classes, functions, name resolution, guards.

Pure ``ast``; nothing from the analysed repository is imported or executed.
"""
from __future__ import annotations

import ast
import copy
import os
from typing import Dict, Iterable, List, Optional, Tuple

from .core import AnalysisError, Source, Tree


def parent(node):
    return getattr(node, "_parent", None)


def enclosing(node, kinds):
    n = parent(node)
    while n is not None and not isinstance(n, kinds):
        n = parent(n)
    return n


def unparse(node) -> str:
    return ast.unparse(node)


class ClassInfo:
    def __init__(self, qual: str, node: ast.ClassDef, mod: "ModuleInfo", outer: Optional["ClassInfo"]):
        self.qual = qual
        self.name = node.name
        self.node = node
        self.mod = mod
        self.outer = outer
        self.methods: Dict[str, ast.FunctionDef] = {}
        self.attrs: Dict[str, ast.expr] = {}      # last class-level assignment per name
        self.attr_stmts: Dict[str, List[ast.stmt]] = {}
        for st in node.body:
            if isinstance(st, (ast.FunctionDef, ast.AsyncFunctionDef)):
                self.methods[st.name] = st
            elif isinstance(st, ast.Assign):
                for t in st.targets:
                    if isinstance(t, ast.Name):
                        self.attrs[t.id] = st.value
                        self.attr_stmts.setdefault(t.id, []).append(st)
            elif isinstance(st, ast.AnnAssign) and isinstance(st.target, ast.Name) and st.value is not None:
                self.attrs[st.target.id] = st.value
                self.attr_stmts.setdefault(st.target.id, []).append(st)

    def __repr__(self):
        return f"<class {self.qual}>"


class ModuleInfo:
    def __init__(self, src: Source):
        self.src = src
        self.rel = src.rel
        self.name = src.rel[:-3].replace(os.sep, ".")
        if self.name.endswith(".__init__"):
            self.name = self.name[: -len(".__init__")]
        self.tree = src.tree
        self.functions: Dict[str, ast.FunctionDef] = {}
        self.classes: Dict[str, ClassInfo] = {}
        # local name -> ("module", dotted) | ("name", dotted_module, name) | ("star", dotted_module)
        self.imports: Dict[str, tuple] = {}
        self.star_imports: List[str] = []

    def abs_module(self, level: int, module: Optional[str]) -> str:
        if level == 0:
            return module or ""
        pkg = self.name.split(".")
        if not self.rel.endswith("__init__.py"):
            pkg = pkg[:-1]
        pkg = pkg[: len(pkg) - (level - 1)]
        return ".".join(pkg + ([module] if module else []))


class Program:
    def __init__(self, tree: Tree):
        self.tree = tree
        self.modules: Dict[str, ModuleInfo] = {}
        self.by_rel: Dict[str, ModuleInfo] = {}
        self.classes: Dict[str, List[ClassInfo]] = {}
        for rel in tree.py_files():
            mi = ModuleInfo(tree.src(rel))
            self.modules[mi.name] = mi
            self.by_rel[rel] = mi
        for mi in self.modules.values():
            self._index(mi)
        self.normalised_calls = 0
        if not os.environ.get("WRAPSA_RAW_CALLS"):
            self._normalise_calls()

    # ------------------------------------------------------------------ call normal form
    def _normalise_calls(self):
        """One spelling for the arguments of calls to the program's own functions: an argument passed by keyword that could
        have been passed by position (it is the next positional parameter of the callee) is moved to its position.  Rules
        read `call.args[k]`; without this `f(x, b=y)` and `f(x, y)` would be two shapes.  The callee is taken by name -
        `self.m`, `cls.m`, `<Class>.m`, `<module alias>.f`, `f`, `<Class>(...)` - and only when every definition of that name in
        the program has the same positional parameter list.  Line numbers are untouched; keyword-only parameters and
        keywords behind a gap stay keywords."""
        sigs: Dict[str, List[Tuple[str, ...]]] = {}
        for mi in self.modules.values():
            for qual, ci in mi.classes.items():
                init = ci.methods.get("__init__")
                if init is not None and not init.args.vararg and not init.args.posonlyargs:
                    sigs.setdefault(ci.name, []).append(tuple(a.arg for a in init.args.args[1:]))
                for mname, fn in ci.methods.items():
                    if fn.args.vararg or fn.args.posonlyargs or mname.startswith("__"):
                        continue
                    static = any(isinstance(d, ast.Name) and d.id == "staticmethod" for d in fn.decorator_list)
                    ps = [a.arg for a in fn.args.args]
                    sigs.setdefault(mname, []).append(tuple(ps if static else ps[1:]))
            for fname, fn in mi.functions.items():
                if not fn.args.vararg and not fn.args.posonlyargs:
                    sigs.setdefault(fname, []).append(tuple(a.arg for a in fn.args.args))
            for fn in ast.walk(mi.tree):          # helpers defined inside functions
                if isinstance(fn, ast.FunctionDef) and not isinstance(getattr(fn, "_parent", None), (ast.Module, ast.ClassDef)) \
                        and not fn.args.vararg and not fn.args.posonlyargs:
                    sigs.setdefault(fn.name, []).append(tuple(a.arg for a in fn.args.args))
        for mi in self.modules.values():
            aliases = {k for k, v in mi.imports.items() if v[0] == "module"}
            for c in ast.walk(mi.tree):
                if not isinstance(c, ast.Call) or not c.keywords or any(isinstance(a, ast.Starred) for a in c.args) or any(k.arg is None for k in c.keywords):
                    continue
                f = c.func
                if isinstance(f, ast.Name):
                    name = f.id
                elif isinstance(f, ast.Attribute) and isinstance(f.value, ast.Name) and (
                        f.value.id in ("self", "cls") or f.value.id in aliases or f.value.id in self.classes or f.value.id[:1].isupper()):
                    name = f.attr
                else:
                    continue
                cands = set(sigs.get(name, []))
                if isinstance(f, ast.Attribute) and f.value.id in ("self", "cls"):
                    # a call on the object itself: the method of the enclosing class (or of a base / mixin), when it defines one
                    k_ = c
                    while k_ is not None and not isinstance(k_, ast.ClassDef):
                        k_ = getattr(k_, "_parent", None)
                    own = None
                    if k_ is not None:
                        for ci_ in self.classes.get(k_.name, []):
                            if ci_.node is k_:
                                m_ = self.find_method(ci_, name)
                                if m_ is not None and not m_[1].args.vararg and not m_[1].args.posonlyargs:
                                    static = any(isinstance(d, ast.Name) and d.id == "staticmethod" for d in m_[1].decorator_list)
                                    ps = [a.arg for a in m_[1].args.args]
                                    own = tuple(ps if static else ps[1:])
                    if own is not None:
                        cands = {own}
                if len(cands) != 1:
                    continue
                params = next(iter(cands))
                moved = False
                while len(c.args) < len(params):
                    nxt = params[len(c.args)]
                    k = next((k for k in c.keywords if k.arg == nxt), None)
                    if k is None:
                        break
                    c.keywords.remove(k)
                    k.value._parent = c  # type: ignore[attr-defined]
                    c.args.append(k.value)
                    moved = True
                if moved:
                    self.normalised_calls += 1

    # ------------------------------------------------------------------ indexing
    def _index(self, mi: ModuleInfo):
        def add_class(node, outer):
            qual = (outer.qual + "." if outer else "") + node.name
            ci = ClassInfo(qual, node, mi, outer)
            mi.classes[qual] = ci
            self.classes.setdefault(node.name, []).append(ci)
            for st in node.body:
                if isinstance(st, ast.ClassDef):
                    add_class(st, ci)

        for st in mi.tree.body:
            if isinstance(st, (ast.FunctionDef, ast.AsyncFunctionDef)):
                mi.functions[st.name] = st
            elif isinstance(st, ast.ClassDef):
                add_class(st, None)
        for st in ast.walk(mi.tree):
            if isinstance(st, ast.Import):
                for a in st.names:
                    if a.asname:
                        mi.imports[a.asname] = ("module", a.name)
                    else:
                        mi.imports[a.name.split(".")[0]] = ("module", a.name.split(".")[0])
            elif isinstance(st, ast.ImportFrom):
                m = mi.abs_module(st.level, st.module)
                for a in st.names:
                    if a.name == "*":
                        mi.star_imports.append(m)
                    else:
                        mi.imports[a.asname or a.name] = ("name", m, a.name)

    # ------------------------------------------------------------------ lookup
    def module(self, rel: str) -> ModuleInfo:
        if rel not in self.by_rel:
            raise AnalysisError(f"anchor module vanished: {rel}")
        return self.by_rel[rel]

    def cls(self, name: str) -> ClassInfo:
        """Class by simple or qualified name; must be unique."""
        simple = name.split(".")[-1]
        cands = [c for c in self.classes.get(simple, []) if c.qual.endswith(name)]
        if len(cands) != 1:
            raise AnalysisError(f"class {name!r}: {len(cands)} definitions found")
        return cands[0]

    def has_cls(self, name: str) -> bool:
        simple = name.split(".")[-1]
        return len([c for c in self.classes.get(simple, []) if c.qual.endswith(name)]) == 1

    def func(self, rel: str, name: str) -> ast.FunctionDef:
        mi = self.module(rel)
        if name not in mi.functions:
            raise AnalysisError(f"anchor function vanished: {rel}:{name}")
        return mi.functions[name]

    def method(self, cls: str, name: str) -> ast.FunctionDef:
        ci = self.cls(cls)
        m = self.find_method(ci, name)
        if m is None:
            raise AnalysisError(f"anchor method vanished: {cls}.{name}")
        return m[1]

    def bases(self, ci: ClassInfo) -> List[ClassInfo]:
        out = []
        for b in ci.node.bases:
            r = self.resolve_class(b, ci.mod)
            if r is not None:
                out.append(r)
        return out

    def mro(self, ci: ClassInfo) -> List[ClassInfo]:
        out = [ci]
        for b in self.bases(ci):
            for x in self.mro(b):
                if x not in out:
                    out.append(x)
        return out

    def find_method(self, ci: ClassInfo, name: str) -> Optional[Tuple[ClassInfo, ast.FunctionDef]]:
        for c in self.mro(ci):
            if name in c.methods:
                return c, c.methods[name]
        return None

    def find_attr(self, ci: ClassInfo, name: str) -> Optional[Tuple[ClassInfo, ast.expr]]:
        for c in self.mro(ci):
            if name in c.attrs:
                return c, c.attrs[name]
        return None

    def is_subclass(self, ci: ClassInfo, base: ClassInfo) -> bool:
        return base in self.mro(ci)

    def resolve_class(self, expr: ast.expr, mi: ModuleInfo) -> Optional[ClassInfo]:
        """Resolve Name / dotted Attribute to a class of the analysed program (or None)."""
        if isinstance(expr, ast.Constant) and isinstance(expr.value, str):
            name = expr.value
        elif isinstance(expr, ast.Name):
            name = expr.id
            if name in mi.classes:
                return mi.classes[name]
        elif isinstance(expr, ast.Attribute):
            parts = []
            e = expr
            while isinstance(e, ast.Attribute):
                parts.append(e.attr)
                e = e.value
            if not isinstance(e, ast.Name):
                return None
            parts.append(e.id)
            parts.reverse()
            # nested class in this module?  e.g. Class.Members, Template.TypenameAndInstantiations
            q = ".".join(parts)
            if q in mi.classes:
                return mi.classes[q]
            # module alias prefix (parser.X, instantiator.X, parser.type.X)
            if parts[0] in mi.imports and mi.imports[parts[0]][0] == "module":
                name = parts[-1]
                if len(parts) >= 3 and self.has_cls(".".join(parts[-2:])):
                    name = ".".join(parts[-2:])
            elif self.has_cls(q):
                name = q
            else:
                return None
        else:
            return None
        simple = name.split(".")[-1]
        cands = [c for c in self.classes.get(simple, []) if c.qual.endswith(name)]
        if len(cands) == 1:
            return cands[0]
        return None

    def functions_named(self, name: str) -> List[Tuple[ModuleInfo, ast.FunctionDef]]:
        return [(m, m.functions[name]) for m in self.modules.values() if name in m.functions]

    def all_functions(self):
        """Yield (module, qualname, FunctionDef, ClassInfo|None) for every def in the program."""
        for mi in self.modules.values():
            for n, f in mi.functions.items():
                yield mi, n, f, None
            for q, ci in mi.classes.items():
                for n, f in ci.methods.items():
                    yield mi, f"{q}.{n}", f, ci


# --------------------------------------------------------------------------------------------
# function-level helpers

def clone_expr(e: ast.AST) -> ast.AST:
    """Detached copy of an expression (AST nodes carry `_parent` links to the whole module, so
    copy.deepcopy would copy the module)."""
    n = ast.parse(ast.unparse(e), mode="eval").body
    for node in ast.walk(n):
        for child in ast.iter_child_nodes(node):
            child._parent = node  # type: ignore[attr-defined]
    for node in ast.walk(n):
        if not hasattr(node, "lineno"):
            continue
        node.lineno = getattr(e, "lineno", 0)
    return n


def func_params(fn: ast.FunctionDef) -> List[str]:
    a = fn.args
    return [x.arg for x in a.posonlyargs + a.args] + ([a.vararg.arg] if a.vararg else []) + \
           [x.arg for x in a.kwonlyargs] + ([a.kwarg.arg] if a.kwarg else [])


def bind_call(fn: ast.FunctionDef, call: ast.Call, drop_self: bool) -> Dict[str, ast.expr]:
    """Bind call arguments to parameter names.  Raises AnalysisError on *args/**kwargs,
    returns dict param -> argument expression (defaults not included)."""
    a = fn.args
    pos = [x.arg for x in a.posonlyargs + a.args]
    if drop_self and pos:
        pos = pos[1:]
    out: Dict[str, ast.expr] = {}
    for i, arg in enumerate(call.args):
        if isinstance(arg, ast.Starred):
            raise AnalysisError(f"starred argument in call {unparse(call)[:80]}")
        if i >= len(pos):
            out[f"<extra{i}>"] = arg
        else:
            out[pos[i]] = arg
    names = set(pos) | {x.arg for x in a.kwonlyargs}
    for kw in call.keywords:
        if kw.arg is None:
            raise AnalysisError(f"**kwargs in call {unparse(call)[:80]}")
        if kw.arg in out:
            out[f"<dup:{kw.arg}>"] = kw.value
        elif kw.arg not in names and not a.kwarg:
            out[f"<unknown:{kw.arg}>"] = kw.value
        else:
            out[kw.arg] = kw.value
    return out


def bound_args(fn: ast.FunctionDef, call: ast.Call) -> Dict[str, ast.expr]:
    """Parameter name -> argument expression of a call of fn, however the argument is passed (position or keyword);
    `self` / `cls` is dropped for methods that are not static.  {} when the call does not bind."""
    drop = bool(fn.args.args) and fn.args.args[0].arg in ("self", "cls") and \
        not any(isinstance(d, ast.Name) and d.id == "staticmethod" for d in fn.decorator_list)
    try:
        return {k: v for k, v in bind_call(fn, call, drop_self=drop).items() if not k.startswith("<")}
    except AnalysisError:
        return {}


def required_params(fn: ast.FunctionDef, drop_self: bool) -> List[str]:
    a = fn.args
    pos = [x.arg for x in a.posonlyargs + a.args]
    nd = len(a.defaults)
    req = pos[: len(pos) - nd] if nd else pos
    if drop_self and req:
        req = req[1:]
    req += [x.arg for x, d in zip(a.kwonlyargs, a.kw_defaults) if d is None]
    return req


def local_assignments(fn) -> Dict[str, List[ast.AST]]:
    """name -> list of statements/targets that (re)bind it inside fn (not nested defs)."""
    out: Dict[str, List[ast.AST]] = {}

    def targets(t, st):
        if isinstance(t, ast.Name):
            out.setdefault(t.id, []).append(st)
        elif isinstance(t, (ast.Tuple, ast.List)):
            for e in t.elts:
                targets(e, st)
        elif isinstance(t, ast.Starred):
            targets(t.value, st)

    for n in walk_no_nested(fn):
        if isinstance(n, ast.Assign):
            for t in n.targets:
                targets(t, n)
        elif isinstance(n, (ast.AugAssign, ast.AnnAssign)):
            targets(n.target, n)
        elif isinstance(n, (ast.For, ast.comprehension)):
            targets(n.target, n)
        elif isinstance(n, ast.With):
            for it in n.items:
                if it.optional_vars is not None:
                    targets(it.optional_vars, n)
        elif isinstance(n, ast.NamedExpr):
            targets(n.target, n)
    return out


def walk_no_nested(fn):
    """ast.walk over a function body without descending into nested defs/lambdas/classes
    (comprehensions are descended into)."""
    stack = list(ast.iter_child_nodes(fn))
    while stack:
        n = stack.pop()
        yield n
        if isinstance(n, (ast.FunctionDef, ast.AsyncFunctionDef, ast.Lambda, ast.ClassDef)):
            continue
        stack.extend(ast.iter_child_nodes(n))


def single_def(fn, name: str) -> Optional[ast.expr]:
    """If local `name` is bound exactly once by a plain assignment, return the value."""
    binds = local_assignments(fn).get(name, [])
    if len(binds) == 1 and isinstance(binds[0], ast.Assign) and len(binds[0].targets) == 1 \
            and isinstance(binds[0].targets[0], ast.Name):
        return binds[0].value
    return None


def _synth(text: str, like: ast.AST) -> ast.expr:
    n = ast.parse(text, mode="eval").body
    for node in ast.walk(n):
        for child in ast.iter_child_nodes(node):
            child._parent = node  # type: ignore[attr-defined]
        if hasattr(node, "lineno"):
            node.lineno = getattr(like, "lineno", 0)
    return n


def value_def(fn, name: str) -> Optional[ast.expr]:
    """The one expression a local stands for: its single binding, or - when it is bound once in each branch of one
    if/else statement, or given a default and overwritten under one `if` - the equivalent conditional expression
    (a synthesised node: it carries the line of the statement, it is not part of the function's tree)."""
    v = single_def(fn, name)
    if v is not None:
        return v
    binds = local_assignments(fn).get(name, [])
    if len(binds) != 2 or not all(isinstance(b, ast.Assign) and len(b.targets) == 1 and isinstance(b.targets[0], ast.Name) for b in binds):
        return None
    a, b = sorted(binds, key=lambda x: x.lineno)
    pa, pb = parent(a), parent(b)
    if isinstance(pa, ast.If) and pa is pb and a in pa.body and b in pa.orelse:
        return _synth(f"({unparse(a.value)}) if ({unparse(pa.test)}) else ({unparse(b.value)})", pa)
    if isinstance(pb, ast.If) and b in pb.body and not pb.orelse and parent(pb) is pa:
        blk = next((getattr(pa, f) for f in ("body", "orelse", "finalbody") if isinstance(getattr(pa, f, None), list) and a in getattr(pa, f)), None)
        if blk is not None and pb in blk and blk.index(a) < blk.index(pb):
            # nothing between the default and the `if` may read the name in a way that matters here: the value *after*
            # the `if` is what a later reader sees
            return _synth(f"({unparse(b.value)}) if ({unparse(pb.test)}) else ({unparse(a.value)})", pb)
    return None


def attr_def(fn, attr: str, before_line: Optional[int] = None) -> Optional[ast.expr]:
    """The value `self.<attr>` holds at a use inside fn, when fn itself binds it: exactly one `self.<attr> = v` in fn, a statement
    of the function body proper (not under a condition or loop), before the use, and nothing else in fn stores to it."""
    if not isinstance(fn, (ast.FunctionDef, ast.AsyncFunctionDef)):
        return None
    stores = [n for n in walk_no_nested(fn) if isinstance(n, ast.Attribute) and n.attr == attr and isinstance(n.value, ast.Name)
              and n.value.id == "self" and isinstance(n.ctx, (ast.Store, ast.Del))]
    if len(stores) != 1:
        return None
    st = parent(stores[0])
    if not (isinstance(st, ast.Assign) and len(st.targets) == 1 and st in fn.body):
        return None
    if before_line is not None and st.lineno >= before_line:
        return None
    return st.value


def inline_locals(fn, expr: ast.expr, depth: int = 6) -> ast.expr:
    """Replace single-assignment locals by their defining expression (bounded depth); an attribute of self that the function
    itself binds once, before the expression, is replaced likewise."""
    params = set(func_params(fn))
    line0 = getattr(expr, "lineno", None)

    class T(ast.NodeTransformer):
        def __init__(self, d):
            self.d = d

        def visit_Name(self, node):
            if isinstance(node.ctx, ast.Load) and node.id not in params and self.d > 0:
                v = value_def(fn, node.id)
                if v is not None:
                    return T(self.d - 1).visit(clone_expr(v))
            return node

        def visit_Attribute(self, node):
            if isinstance(node.ctx, ast.Load) and isinstance(node.value, ast.Name) and node.value.id == "self" and self.d > 0 and line0:
                v = attr_def(fn, node.attr, line0)
                if v is not None:
                    return T(self.d - 1).visit(clone_expr(v))
            return self.generic_visit(node)

    return T(depth).visit(clone_expr(expr))


def _exit_paths(st: ast.If, prefix=()) -> List[List[Tuple[str, bool]]]:
    """Conditions (conjunctions of (test, polarity)) under which control leaves the enclosing block from inside the `if`
    statement st: a block that *ends* in return / continue / raise / break, at any nesting depth of if statements."""
    out = []
    for pol, blk in ((True, st.body), (False, st.orelse)):
        if not blk:
            continue
        here = list(prefix) + [(unparse(st.test), pol)]
        if isinstance(blk[-1], (ast.Return, ast.Continue, ast.Raise, ast.Break)):
            out.append(here)
            continue
        for x in blk:
            if isinstance(x, ast.If):
                out += _exit_paths(x, tuple(here))
    return out


def guards_of(node, fn, include_exits: bool = True) -> List[Tuple[str, bool]]:
    """Guards under which `node` executes inside fn: (test source, polarity) for enclosing
    if/elif/else, ternaries and while tests, plus negations of earlier sibling
    ``if T: return/continue/raise/break`` exits in every enclosing block."""
    out: List[Tuple[str, bool]] = []
    cur = node
    while cur is not None and cur is not fn:
        p = parent(cur)
        if p is None:
            break
        if isinstance(p, ast.If):
            if cur in p.body:
                out.append((unparse(p.test), True))
            elif cur in p.orelse:
                out.append((unparse(p.test), False))
        elif isinstance(p, ast.IfExp):
            if cur is p.body:
                out.append((unparse(p.test), True))
            elif cur is p.orelse:
                out.append((unparse(p.test), False))
        elif isinstance(p, ast.While) and cur in p.body:
            out.append((unparse(p.test), True))
        # earlier exits in the same block
        for fld in (("body", "orelse", "finalbody") if include_exits else ()):
            blk = getattr(p, fld, None)
            if isinstance(blk, list) and cur in blk:
                for st in blk[: blk.index(cur)]:
                    if isinstance(st, ast.If) and not st.orelse and st.body and \
                            isinstance(st.body[-1], (ast.Return, ast.Continue, ast.Raise, ast.Break)):
                        out.append((unparse(st.test), False))
                    elif isinstance(st, ast.If):
                        # an exit nested deeper in an earlier `if` (`if A: if not B: continue`): not (A and not B)
                        for path in _exit_paths(st):
                            out.append((" and ".join(f"({t})" if pol else f"not ({t})" for t, pol in path), False))
        cur = p
    out.reverse()
    return out


def calls_in(node) -> Iterable[ast.Call]:
    for n in ast.walk(node):
        if isinstance(n, ast.Call):
            yield n


def callee_name(call: ast.Call) -> str:
    f = call.func
    if isinstance(f, ast.Name):
        return f.id
    if isinstance(f, ast.Attribute):
        return f.attr
    return ""


def dotted(expr) -> Optional[str]:
    parts = []
    e = expr
    while isinstance(e, ast.Attribute):
        parts.append(e.attr)
        e = e.value
    if isinstance(e, ast.Name):
        parts.append(e.id)
        return ".".join(reversed(parts))
    return None


def stmt_of(node):
    n = node
    while n is not None and not isinstance(n, ast.stmt):
        n = parent(n)
    return n


def alpha_norm(expr: ast.expr, bound: Optional[Dict[str, str]] = None) -> str:
    """Canonical text of an expression with comprehension / lambda variables renamed."""
    e = clone_expr(expr)
    counter = [0]
    env = dict(bound or {})

    def fresh():
        counter[0] += 1
        return f"_v{counter[0]}"

    def bind_target(t, env):
        if isinstance(t, ast.Name):
            env[t.id] = fresh()
        elif isinstance(t, (ast.Tuple, ast.List)):
            for x in t.elts:
                bind_target(x, env)

    def rn(n, env):
        if isinstance(n, (ast.ListComp, ast.SetComp, ast.GeneratorExp, ast.DictComp)):
            env = dict(env)
            for g in n.generators:
                rn(g.iter, env)
                bind_target(g.target, env)
                rn(g.target, env)
                for c in g.ifs:
                    rn(c, env)
            if isinstance(n, ast.DictComp):
                rn(n.key, env)
                rn(n.value, env)
            else:
                rn(n.elt, env)
            return
        if isinstance(n, ast.Lambda):
            env = dict(env)
            for a in n.args.args:
                env[a.arg] = fresh()
                a.arg = env[a.arg]
            rn(n.body, env)
            return
        if isinstance(n, ast.Name) and n.id in env:
            n.id = env[n.id]
            return
        for c in ast.iter_child_nodes(n):
            rn(c, env)

    rn(e, env)
    return ast.unparse(e)


_SET_ALGEBRA = (ast.Sub, ast.BitAnd, ast.BitOr, ast.BitXor)
_SET_QUERIES = {"add", "discard", "update", "remove", "issubset", "issuperset", "isdisjoint", "intersection_update", "difference_update", "clear"}


def order_free_use(node: ast.AST, scope: ast.AST, depth: int = 4) -> bool:
    """The value of `node` (a set) is used only in ways that cannot let its iteration order out: membership and truth tests,
    len(), set algebra and comparisons whose result is used the same way, sorted(..) (the elements decide, not their order),
    the message of a `raise`, the order-free methods of a set.  A local name it is bound to is followed."""
    p = parent(node)
    if p is None or depth < 0:
        return False
    if enclosing(node, ast.Raise) is not None:
        return True
    if isinstance(p, ast.Compare):
        return True                                    # in / not in / == / <= ... give a bool
    if isinstance(p, (ast.If, ast.While, ast.IfExp, ast.Assert)) and getattr(p, "test", None) is node:
        return True
    if isinstance(p, ast.UnaryOp) and isinstance(p.op, ast.Not):
        return True
    if isinstance(p, ast.BoolOp):
        return order_free_use(p, scope, depth - 1) or isinstance(parent(p), (ast.If, ast.While, ast.IfExp, ast.Assert))
    if isinstance(p, ast.BinOp) and isinstance(p.op, _SET_ALGEBRA):
        return order_free_use(p, scope, depth - 1)
    if isinstance(p, ast.Call) and node in p.args and isinstance(p.func, ast.Name) and p.func.id in ("len", "bool", "sorted", "frozenset", "set", "any", "all", "min", "max", "sum"):
        return p.func.id in ("len", "bool", "sorted", "any", "all", "min", "max", "sum") or order_free_use(p, scope, depth - 1)
    if isinstance(p, ast.Attribute) and p.value is node and p.attr in _SET_QUERIES:
        return True
    if isinstance(p, ast.Assign) and p.value is node and len(p.targets) == 1 and isinstance(p.targets[0], ast.Name):
        nm = p.targets[0].id
        uses = [u for u in ast.walk(scope) if isinstance(u, ast.Name) and u.id == nm and isinstance(u.ctx, ast.Load)]
        return bool(uses) and all(order_free_use(u, scope, depth - 1) for u in uses)
    return False
