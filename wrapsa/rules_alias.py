"""Freshness / aliasing rules (C13 P1-P4, reused by C01 and C14).

A value is FRESH when every evaluation of the expression creates a new container/object
(literal, comprehension, constructor, deepcopy, slice, list concatenation, or a callee all of
whose returns are fresh); anything reached through a parameter or an attribute is SHARED.
In-place mutation is allowed on FRESH values only (or on `self` while it is being built)."""
from __future__ import annotations

import ast
from typing import Dict, List, Optional, Set, Tuple

from .core import AnalysisError, Report
from .effects import Effects, FuncId
from .prog import (ClassInfo, ModuleInfo, Program, dotted, enclosing, func_params, local_assignments,
                   parent, unparse, walk_no_nested)
from .rules_flow import effects_engine

MUTATORS = {"append", "extend", "insert", "pop", "remove", "clear", "sort", "reverse", "update",
            "setdefault", "add", "discard", "popitem"}
FRESH_CALLS = {"list", "dict", "set", "tuple", "sorted", "deepcopy", "copy.deepcopy", "copy.copy",
               "frozenset", "str", "int", "float", "bool", "repr", "len", "enumerate", "zip", "map",
               "filter", "range", "reversed", "sum", "min", "max", "itertools.product", "isinstance",
               "reduce", "partial"}
FRESH_METHODS = {"copy", "split", "splitlines", "join", "format", "replace", "strip", "lower", "upper",
                 "asList", "as_list", "keys", "values", "items", "capitalize", "lstrip", "rstrip",
                 "index", "get", "startswith", "endswith", "count", "title"}


class Fresh:
    def __init__(self, ctx):
        self.ctx = ctx
        self.prog: Program = ctx.prog
        self.eff: Effects = effects_engine(ctx)
        self._ret_memo: Dict[FuncId, Tuple[bool, str]] = {}

    def returns_fresh(self, fid: FuncId, stack=()) -> Tuple[bool, str]:
        if fid in self._ret_memo:
            return self._ret_memo[fid]
        if fid in stack:
            return True, "recursive"
        mi, fn, ci = self.eff.funcs[fid]
        if fn.name == "__init__":
            return True, "constructor"
        rets = [n for n in walk_no_nested(fn) if isinstance(n, ast.Return) and n.value is not None]
        res = (True, "all returns fresh")
        for r in rets:
            ok, why = self.fresh(r.value, fn, mi, ci, stack + (fid,))
            if not ok:
                res = (False, f"{fid.qual} returns {unparse(r.value)[:40]} ({why})")
                break
        self._ret_memo[fid] = res
        return res

    def _table_column(self, loop, name: str, fn) -> Optional[List[ast.AST]]:
        """`for a, b in table:` where table is (a local bound once to) a literal sequence of equal-length tuples:
        the expressions in the column that `name` is bound to."""
        tgt = loop.target
        if not (isinstance(tgt, ast.Tuple) and all(isinstance(x, ast.Name) for x in tgt.elts)):
            return None
        names = [x.id for x in tgt.elts]
        if name not in names:
            return None
        col = names.index(name)
        it = loop.iter
        if isinstance(it, ast.Name):
            vals = [st.value for st in walk_no_nested(fn) if isinstance(st, ast.Assign) and len(st.targets) == 1
                    and isinstance(st.targets[0], ast.Name) and st.targets[0].id == it.id]
            if len(vals) != 1:
                return None
            it = vals[0]
        if not isinstance(it, (ast.Tuple, ast.List)) or not it.elts:
            return None
        out = []
        for row in it.elts:
            if not (isinstance(row, ast.Tuple) and len(row.elts) == len(names)):
                return None
            out.append(row.elts[col])
        return out

    def _fresh_or_own_attr(self, x: ast.AST, fn, mi, ci, stack, depth) -> Tuple[bool, str]:
        """Fresh, or `self.<a>` inside a constructor that binds self.<a> to fresh values only."""
        if isinstance(x, ast.Attribute) and isinstance(x.value, ast.Name) and x.value.id == "self" and fn.name == "__init__":
            vals = [st.value for st in walk_no_nested(fn) if isinstance(st, (ast.Assign, ast.AnnAssign)) and st.value is not None
                    and any(unparse(t) == unparse(x) for t in (st.targets if isinstance(st, ast.Assign) else [st.target]))]
            if vals and all(self.fresh(v, fn, mi, ci, stack, depth)[0] for v in vals):
                return True, "attribute created by this constructor"
            return False, f"{unparse(x)} is not created by this constructor"
        return self.fresh(x, fn, mi, ci, stack, depth)

    def _returns_own_argument(self, call: ast.AST, name: str, fn, mi, ci) -> bool:
        """call is f(..., name, ...) and every return of f is the parameter bound to `name`."""
        from .prog import bind_call
        if not isinstance(call, ast.Call):
            return False
        callees = [c for c in self.eff.resolve_call(call, mi, ci, fn) if c in self.eff.funcs]
        if not callees:
            return False
        for c in callees:
            cmi, cfn, cci = self.eff.funcs[c]
            drop = cci is not None and not any(unparse(d) == "staticmethod" for d in cfn.decorator_list)
            try:
                b = bind_call(cfn, call, drop_self=drop)
            except AnalysisError:
                return False
            ps = [p for p, a in b.items() if isinstance(a, ast.Name) and a.id == name]
            if len(ps) != 1:
                return False
            rets = [n for n in walk_no_nested(cfn) if isinstance(n, ast.Return) and n.value is not None]
            if not rets or not all(isinstance(r.value, ast.Name) and r.value.id == ps[0] for r in rets):
                return False
        return True

    def fresh(self, e: ast.AST, fn, mi: ModuleInfo, ci: Optional[ClassInfo], stack=(), depth=6) -> Tuple[bool, str]:
        if depth <= 0:
            return False, "too deep"
        if isinstance(e, (ast.List, ast.Dict, ast.Set, ast.Tuple, ast.ListComp, ast.DictComp, ast.SetComp,
                          ast.GeneratorExp, ast.Constant, ast.JoinedStr, ast.Compare, ast.BoolOp, ast.UnaryOp,
                          ast.Lambda)):
            return True, "literal"
        if isinstance(e, ast.Subscript):
            if isinstance(e.slice, ast.Slice):
                return True, "slice"
            return False, f"element of {unparse(e.value)[:30]}"
        if isinstance(e, ast.BinOp):
            if isinstance(e.op, ast.Add):
                return True, "concatenation creates a new list/str"
            return True, "arithmetic"
        if isinstance(e, ast.IfExp):
            a, b = self.fresh(e.body, fn, mi, ci, stack, depth - 1), self.fresh(e.orelse, fn, mi, ci, stack, depth - 1)
            return (a[0] and b[0]), (a[1] if not a[0] else b[1])
        if isinstance(e, ast.Call):
            name = dotted(e.func) or ""
            if name in FRESH_CALLS or name.split(".")[-1] in ("deepcopy",):
                return True, name
            if isinstance(e.func, ast.Attribute) and e.func.attr in FRESH_METHODS:
                return True, "." + e.func.attr
            if isinstance(e.func, ast.Attribute) and e.func.attr == "setdefault" and len(e.args) == 2:
                # table.setdefault(k, <new container>) on a table this function created: the entry is the function's own
                a, b = self.fresh(e.func.value, fn, mi, ci, stack, depth - 1), self.fresh(e.args[1], fn, mi, ci, stack, depth - 1)
                if a[0] and b[0]:
                    return True, "entry of a table created here"
            callees = [c for c in self.eff.resolve_call(e, mi, ci, fn) if c in self.eff.funcs]
            if self.prog.resolve_class(e.func, mi) is not None:
                return True, "constructor call"
            if not callees:
                return False, f"result of unresolved call {name or unparse(e.func)[:30]}"
            for c in callees:
                ok, why = self.returns_fresh(c, stack)
                if not ok:
                    return False, why
            return True, "callee returns fresh"
        if isinstance(e, ast.Name):
            if fn is None:
                return False, "module scope"
            binds, killed = reaching_defs(fn, e.id, e)
            if not killed and e.id in func_params(fn):
                return False, f"parameter {e.id}"
            if not binds:
                return False, f"free name {e.id}"
            for b in binds:
                if isinstance(b, ast.AnnAssign):
                    if b.value is None:
                        continue
                    ok, why = self.fresh(b.value, fn, mi, ci, stack, depth - 1)
                    if not ok:
                        return False, f"{e.id} = {unparse(b.value)[:40]} ({why})"
                elif isinstance(b, ast.Assign):
                    # tuple unpacking: conservative
                    if not (len(b.targets) == 1 and isinstance(b.targets[0], ast.Name)):
                        return False, f"{e.id} bound by unpacking"
                    # x = f(x, ...) where f returns the parameter it was given: same object
                    if self._returns_own_argument(b.value, e.id, fn, mi, ci):
                        continue
                    ok, why = self.fresh(b.value, fn, mi, ci, stack, depth - 1)
                    if not ok:
                        return False, f"{e.id} = {unparse(b.value)[:40]} ({why})"
                elif isinstance(b, ast.AugAssign):
                    continue
                elif isinstance(b, (ast.For, ast.comprehension)) and _walker_arguments(fn, mi, b.iter) is not None:
                    # the variable walks over parts of what a local generator was given: as fresh as those arguments
                    for a_ in _walker_arguments(fn, mi, b.iter):
                        ok, why = self.fresh(_root(a_), fn, mi, ci, stack, depth - 1)
                        if not ok:
                            return False, f"{e.id} walks over parts of {unparse(a_)[:30]} ({why})"
                    continue
                elif isinstance(b, (ast.For, ast.comprehension)):
                    cands = self._table_column(b, e.id, fn)
                    if cands is not None:
                        for cx in cands:
                            ok, why = self._fresh_or_own_attr(cx, fn, mi, ci, stack, depth - 1)
                            if not ok:
                                return False, f"{e.id} iterates over a table holding {unparse(cx)[:30]} ({why})"
                        continue
                    return False, f"{e.id} iterates over {unparse(b.iter)[:40]}"
                else:
                    return False, f"{e.id} bound by {type(b).__name__}"
            return True, "local bound to fresh values only"
        if isinstance(e, ast.Attribute):
            return False, f"attribute {unparse(e)[:40]}"
        return False, type(e).__name__


def _walker_arguments(fn, mi, it: ast.AST) -> Optional[List[ast.AST]]:
    """If `it` is a call of a generator defined in this function or module that yields nothing but parts of its own
    parameters (the parameter, an element of one of its attributes, or what a recursive call on such a part yields), the
    call's arguments; None otherwise."""
    if not (isinstance(it, ast.Call) and isinstance(it.func, ast.Name)):
        return None
    cands = [g for g in ast.walk(fn) if isinstance(g, ast.FunctionDef) and g.name == it.func.id and g is not fn]
    if not cands and it.func.id in getattr(mi, "functions", {}):
        cands = [mi.functions[it.func.id]]
    if len(cands) != 1:
        return None
    g = cands[0]
    gp = set(func_params(g))
    ys = [y for y in walk_no_nested(g) if isinstance(y, (ast.Yield, ast.YieldFrom))]
    if not ys:
        return None

    def part(x) -> bool:
        r = _root(x)
        if not isinstance(r, ast.Name):
            return False
        if r.id in gp:
            return True
        return _owner_param(g, r, gp) is not None
    for y in ys:
        if isinstance(y, ast.Yield):
            if y.value is None or not part(y.value):
                return None
        else:
            v = y.value
            if isinstance(v, ast.Call) and isinstance(v.func, ast.Name) and v.func.id == g.name and all(part(a) for a in v.args):
                continue
            if part(v):
                continue
            return None
    return list(it.args)


def reaching_defs(fn, name: str, site: ast.AST):
    """(definitions of `name` that can reach `site`, killed?) - killed means an unconditional
    assignment in an enclosing block precedes the site, so earlier bindings (including a
    parameter of that name) do not reach it."""
    from .prog import stmt_of

    def binds_in(st) -> List[ast.AST]:
        out = []
        for n in ast.walk(st):
            if isinstance(n, (ast.FunctionDef, ast.Lambda)) and n is not st:
                continue
            if isinstance(n, (ast.Assign, ast.AnnAssign, ast.AugAssign)):
                tg = n.targets if isinstance(n, ast.Assign) else [n.target]
                for t in tg:
                    for x in ast.walk(t):
                        if isinstance(x, ast.Name) and x.id == name and isinstance(x.ctx, ast.Store):
                            out.append(n)
            elif isinstance(n, (ast.For, ast.comprehension)):
                for x in ast.walk(n.target):
                    if isinstance(x, ast.Name) and x.id == name:
                        out.append(n)
            elif isinstance(n, ast.With):
                for it in n.items:
                    if it.optional_vars is not None:
                        for x in ast.walk(it.optional_vars):
                            if isinstance(x, ast.Name) and x.id == name:
                                out.append(n)
        return out

    defs: List[ast.AST] = []
    cur = stmt_of(site)
    while cur is not None and cur is not fn:
        p = parent(cur)
        if p is None:
            break
        # loop variable of an enclosing for / comprehension
        if isinstance(p, ast.For) and cur in p.body and any(isinstance(x, ast.Name) and x.id == name for x in ast.walk(p.target)):
            defs.append(p)
            return defs, True
        for fld in ("body", "orelse", "finalbody", "handlers"):
            blk = getattr(p, fld, None)
            if isinstance(blk, list) and cur in blk:
                for st in reversed(blk[: blk.index(cur)]):
                    if isinstance(st, (ast.Assign, ast.AnnAssign)) and st in binds_in(st) and \
                            not isinstance(st, ast.AugAssign):
                        simple = (isinstance(st, ast.Assign) and len(st.targets) == 1 and isinstance(st.targets[0], ast.Name)) \
                            or (isinstance(st, ast.AnnAssign) and isinstance(st.target, ast.Name))
                        if simple:
                            defs.append(st)
                            return defs, True
                    defs += binds_in(st)
                # a loop body can be reached from its own later statements
                if isinstance(p, (ast.For, ast.While)) and cur in p.body:
                    for st in blk[blk.index(cur):]:
                        defs += [d for d in binds_in(st) if d not in defs]
        cur = p
    return defs, False


def _root(e: ast.AST) -> ast.AST:
    """Strip attribute / subscript / call-of-accessor chains down to the root expression."""
    while True:
        if isinstance(e, ast.Attribute):
            e = e.value
        elif isinstance(e, ast.Subscript):
            e = e.value
        else:
            return e


def mutation_sites(fn):
    """(node, base expression, how) for in-place mutations inside fn."""
    for n in walk_no_nested(fn):
        if isinstance(n, ast.Call) and isinstance(n.func, ast.Attribute) and n.func.attr in MUTATORS:
            yield n, n.func.value, "." + n.func.attr + "()"
        elif isinstance(n, ast.Subscript) and isinstance(n.ctx, (ast.Store, ast.Del)):
            yield n, n.value, "item store"
        elif isinstance(n, ast.Attribute) and isinstance(n.ctx, (ast.Store, ast.Del)):
            yield n, n.value, f"attribute store .{n.attr}"
        elif isinstance(n, ast.AugAssign) and isinstance(n.target, ast.Name):
            # += on a list mutates in place; on str/int it rebinds: decide by the operand
            if isinstance(n.value, (ast.List, ast.ListComp)) or (
                    isinstance(n.value, ast.Call) and (dotted(n.value.func) or "") in ("list",)):
                yield n, n.target, "+= list"


def _site_shape(node, fn) -> str:
    """Text of a mutation site with the function's local variables (not its parameters) written as `_`:
    the key under which one site can be exempted, stable under renaming of locals."""
    params = set(func_params(fn))
    c = ast.parse(unparse(node)).body[0]
    for x in ast.walk(c):
        if isinstance(x, ast.Name) and x.id not in params:
            x.id = "_"
    return unparse(c)


def _adoption_in_constructor(node, fn) -> bool:
    """`<child>.parent = self` inside __init__: the node under construction adopts the children it was built
    from.  Any other store to .parent re-attributes an existing node to another scope and is analysed like
    every other in-place modification."""
    st = parent(node)
    return fn.name == "__init__" and isinstance(st, ast.Assign) and isinstance(st.value, ast.Name) and st.value.id == "self"


def rule_mutate_only_fresh(ctx, rep: Report, rid: str, package: str, exempt: Dict[str, str],
                           allow_parent_links: bool = True, min_sites: int = 1):
    fr = Fresh(ctx)
    prog = ctx.prog
    eff = fr.eff
    n = 0
    for fid in sorted(eff.funcs, key=repr):
        if not fid.rel.startswith(package):
            continue
        mi, fn, ci = eff.funcs[fid]
        for node, base, how in mutation_sites(fn):
            root = _root(base)
            key = f"mutation:{fid.qual}:{unparse(node)[:60]}"
            loc = f"{mi.rel}:{node.lineno}"
            # through a call: x.f().append(..)  -> the call result is the root
            if allow_parent_links and how == "attribute store .parent" and _adoption_in_constructor(node, fn):
                n += 1
                rep.add(rid, key, True, "back-link to the owner (a constructor adopting the children it was given)", loc, nontrivial=False)
                continue
            if isinstance(root, ast.Name) and root.id == "self":
                if isinstance(base, ast.Name):
                    continue              # self.x = v : building / updating own state (C14/R3)
                if fn.name != "__init__":
                    continue              # accumulators on self are C14/R3's business, not aliasing
                # self.x.pop(0) / self.x[i] = v inside a constructor: self.x must have been bound
                # to a fresh value by this constructor
                attr = base
                while isinstance(attr, ast.Subscript):
                    attr = attr.value
                vals = [st.value for st in walk_no_nested(fn) if isinstance(st, ast.Assign)
                        and len(st.targets) == 1 and unparse(st.targets[0]) == unparse(attr)]
                vals += [st.value for st in walk_no_nested(fn) if isinstance(st, ast.AnnAssign)
                         and st.value is not None and unparse(st.target) == unparse(attr)]
                bad = [w for ok, w in (fr.fresh(v, fn, mi, ci) for v in vals) if not ok]
                n += 1
                rep.add(rid, key, bool(vals) and not bad,
                        f"{unparse(base)[:40]} is modified in place ({how}) but was bound to a shared "
                        f"value: {bad[:1] or 'not bound in this constructor'}", loc)
                continue
            n += 1
            ekey = f"{fid.qual}:{_site_shape(node, fn)}"
            if ekey in exempt:
                rep.add(rid, key, True, "exempt (this one site): " + exempt[ekey], loc, nontrivial=False)
                continue
            ok, why = fr.fresh(root, fn, mi, ci)
            if not ok and isinstance(root, ast.Name) and root.id in func_params(fn):
                # an accumulator parameter is fine when every caller hands in a fresh value it owns
                ok2, why2 = _param_fresh_at_callers(fr, fid, root.id)
                if ok2:
                    ok, why = True, why2
                else:
                    why = f"{why}; {why2}"
            rep.add(rid, key, ok,
                    f"in-place modification ({how}) of {unparse(base)[:40]}, which is shared ({why}): the "
                    f"change is visible to every other holder of the same object (other instantiations, "
                    f"later queries of the parse tree)" if not ok else why, loc)
        # nested helper functions (closures): their parameters are owned by whoever calls them
        for g in ast.walk(fn):
            if not isinstance(g, ast.FunctionDef) or g is fn:
                continue
            gparams = set(func_params(g))
            calls_g = [c for c in ast.walk(fn) if isinstance(c, ast.Call) and isinstance(c.func, ast.Name) and c.func.id == g.name]
            for node, base, how in mutation_sites(g):
                root = _root(base)
                if not isinstance(root, ast.Name):
                    continue
                n += 1
                key = f"mutation:{fid.qual}.{g.name}:{unparse(node)[:60]}"
                loc = f"{mi.rel}:{node.lineno}"
                if allow_parent_links and how == "attribute store .parent" and _adoption_in_constructor(node, fn):
                    rep.add(rid, key, True, "back-link to the owner", loc, nontrivial=False)
                    continue
                owner = _owner_param(g, root, gparams)
                if owner is None:
                    ok, why = fr.fresh(root, g, mi, ci)
                    if not ok and root.id not in gparams and root.id not in local_assignments(g):
                        # a variable of the enclosing function
                        ok, why = fr.fresh(ast.copy_location(ast.Name(id=root.id, ctx=ast.Load()), g), fn, mi, ci)
                    rep.add(rid, key, ok, f"in-place modification ({how}) of {unparse(base)[:40]}, which is shared ({why})"
                            if not ok else why, loc)
                    continue
                bad = []
                for c in calls_g:
                    inside = enclosing(c, ast.FunctionDef) is g or any(x is c for x in ast.walk(g))
                    idx = func_params(g).index(owner)
                    arg = c.args[idx] if idx < len(c.args) else next((k.value for k in c.keywords if k.arg == owner), None)
                    if arg is None:
                        continue
                    aroot = _root(arg)
                    if inside:
                        if not (isinstance(aroot, ast.Name) and _owner_param(g, aroot, gparams) is not None):
                            ok2, why2 = fr.fresh(aroot, g, mi, ci)
                            if not ok2:
                                bad.append(f"recursive call passes {unparse(arg)[:30]} ({why2})")
                    else:
                        ok2, why2 = fr.fresh(aroot, fn, mi, ci)
                        if not ok2:
                            bad.append(f"{fid.qual} passes {unparse(arg)[:30]} ({why2})")
                rep.add(rid, key, bool(calls_g) and not bad,
                        f"in-place modification ({how}) of {unparse(base)[:40]} inside helper {g.name}: "
                        f"{'; '.join(bad) or 'helper is never called'}" if (bad or not calls_g) else
                        f"every caller of {g.name} passes a value it owns", loc)
    rep.units.setdefault("mutation_sites", 0)
    rep.units["mutation_sites"] += n
    if n < min_sites:
        raise AnalysisError(f"{rep.prop}/{rid}: only {n} mutation sites found in {package} (>= {min_sites} expected)")


def _owner_param(g, root: ast.Name, gparams) -> Optional[str]:
    """The parameter of g that `root` is, or iterates over (for x in <param>.attr ...)."""
    if root.id in gparams:
        binds, killed = reaching_defs(g, root.id, root)
        if not killed:
            return root.id
    binds, _ = reaching_defs(g, root.id, root)
    for b in binds:
        if isinstance(b, (ast.For, ast.comprehension)):
            it = b.iter
            if isinstance(it, ast.Call) and isinstance(it.func, ast.Name) and it.func.id in ("enumerate", "reversed"):
                it = it.args[0]
            r = _root(it)
            if isinstance(r, ast.Name) and r.id in gparams:
                return r.id
    return None


def _param_fresh_at_callers(fr: Fresh, fid: FuncId, pname: str) -> Tuple[bool, str]:
    from .prog import bind_call
    eff = fr.eff
    mi, fn, ci = eff.funcs[fid]
    sites = []
    for cf, (cmi, cfn, cci) in eff.funcs.items():
        for c in walk_no_nested(cfn):
            if isinstance(c, ast.Call) and fid in eff.resolve_call(c, cmi, cci, cfn):
                sites.append((cf, cmi, cfn, cci, c))
    if not sites:
        return False, f"no caller of {fid.qual} found"
    outside = sorted({cmi.rel for cf, cmi, cfn, cci, c in sites if cmi.rel.startswith("scripts/")})
    if outside:
        # an entry point of the library: the command-line scripts call it, and so does every other user of the API
        return False, (f"{fid.qual} is an entry point of the library (called from {outside[0]}): its callers are not all in view, "
                       f"the object belongs to whoever calls it")
    for cf, cmi, cfn, cci, c in sites:
        drop = ci is not None and not any(unparse(d) == "staticmethod" for d in fn.decorator_list)
        try:
            b = bind_call(fn, c, drop_self=drop)
        except AnalysisError as e:
            return False, str(e)
        if pname not in b:
            continue        # the parameter's default is used: nothing shared is handed in
        if cf == fid and isinstance(b[pname], ast.Name) and b[pname].id == pname:
            # the function hands its own accumulator on to itself: fresh by induction when every value the
            # function itself binds to the name is fresh (the other callers are judged below / above)
            rebinds = [st.value for st in walk_no_nested(fn) if isinstance(st, ast.Assign) and len(st.targets) == 1
                       and isinstance(st.targets[0], ast.Name) and st.targets[0].id == pname]
            bad = [w for okv, w in (fr.fresh(v, fn, mi, ci) for v in rebinds) if not okv]
            if bad:
                return False, f"{fid.qual} rebinds {pname} to a shared value ({bad[0]}) and passes it on to itself"
            continue
        ok, why = fr.fresh(b[pname], cfn, cmi, cci)
        if not ok:
            return False, f"caller {cf.qual} passes a shared value for {pname} ({why})"
    return True, f"every caller passes a value it created for {pname}"
