"""Freshness / aliasing rules (C13 P1-P4, reused by C01 and C14).

A value is FRESH when every evaluation of the expression creates a new container/object
(literal, comprehension, constructor, deepcopy, slice, list concatenation, or a callee all of
whose returns are fresh); anything reached through a parameter or an attribute is SHARED.
In-place mutation is allowed on FRESH values only (or on `self` while it is being built)."""
from __future__ import annotations

import ast
from typing import Dict, List, Optional, Set, Tuple

from .core import AnalysisError, Report
from .effects import Effects, FuncId
from .prog import (ClassInfo, ModuleInfo, Program, dotted, enclosing, func_params, local_assignments,
                   parent, unparse, walk_no_nested)
from .rules_flow import effects_engine

MUTATORS = {"append", "extend", "insert", "pop", "remove", "clear", "sort", "reverse", "update",
            "setdefault", "add", "discard", "popitem"}
FRESH_CALLS = {"list", "dict", "set", "tuple", "sorted", "deepcopy", "copy.deepcopy", "copy.copy",
               "frozenset", "str", "int", "float", "bool", "repr", "len", "enumerate", "zip", "map",
               "filter", "range", "reversed", "sum", "min", "max", "itertools.product", "isinstance",
               "reduce", "partial"}
FRESH_METHODS = {"copy", "split", "splitlines", "join", "format", "replace", "strip", "lower", "upper",
                 "asList", "as_list", "keys", "values", "items", "capitalize", "lstrip", "rstrip",
                 "index", "get", "startswith", "endswith", "count", "title"}


class Fresh:
    def __init__(self, ctx):
        self.ctx = ctx
        self.prog: Program = ctx.prog
        self.eff: Effects = effects_engine(ctx)
        self._ret_memo: Dict[FuncId, Tuple[bool, str]] = {}

    def returns_fresh(self, fid: FuncId, stack=()) -> Tuple[bool, str]:
        if fid in self._ret_memo:
            return self._ret_memo[fid]
        if fid in stack:
            return True, "recursive"
        mi, fn, ci = self.eff.funcs[fid]
        if fn.name == "__init__":
            return True, "constructor"
        rets = [n for n in walk_no_nested(fn) if isinstance(n, ast.Return) and n.value is not None]
        res = (True, "all returns fresh")
        for r in rets:
            ok, why = self.fresh(r.value, fn, mi, ci, stack + (fid,))
            if not ok:
                res = (False, f"{fid.qual} returns {unparse(r.value)[:40]} ({why})")
                break
        self._ret_memo[fid] = res
        return res

    def _table_column(self, loop, name: str, fn) -> Optional[List[ast.AST]]:
        """`for a, b in table:` where table is (a local bound once to) a literal sequence of equal-length tuples:
        the expressions in the column that `name` is bound to."""
        tgt = loop.target
        if not (isinstance(tgt, ast.Tuple) and all(isinstance(x, ast.Name) for x in tgt.elts)):
            return None
        names = [x.id for x in tgt.elts]
        if name not in names:
            return None
        col = names.index(name)
        it = loop.iter
        if isinstance(it, ast.Name):
            vals = [st.value for st in walk_no_nested(fn) if isinstance(st, ast.Assign) and len(st.targets) == 1
                    and isinstance(st.targets[0], ast.Name) and st.targets[0].id == it.id]
            if len(vals) != 1:
                return None
            it = vals[0]
        if not isinstance(it, (ast.Tuple, ast.List)) or not it.elts:
            return None
        out = []
        for row in it.elts:
            if not (isinstance(row, ast.Tuple) and len(row.elts) == len(names)):
                return None
            out.append(row.elts[col])
        return out

    def _fresh_or_own_attr(self, x: ast.AST, fn, mi, ci, stack, depth) -> Tuple[bool, str]:
        """Fresh, or `self.<a>` inside a constructor that binds self.<a> to fresh values only."""
        if isinstance(x, ast.Attribute) and isinstance(x.value, ast.Name) and x.value.id == "self" and fn.name == "__init__":
            vals = [st.value for st in walk_no_nested(fn) if isinstance(st, (ast.Assign, ast.AnnAssign)) and st.value is not None
                    and any(unparse(t) == unparse(x) for t in (st.targets if isinstance(st, ast.Assign) else [st.target]))]
            if vals and all(self.fresh(v, fn, mi, ci, stack, depth)[0] for v in vals):
                return True, "attribute created by this constructor"
            return False, f"{unparse(x)} is not created by this constructor"
        return self.fresh(x, fn, mi, ci, stack, depth)

    def _returns_own_argument(self, call: ast.AST, name: str, fn, mi, ci) -> bool:
        """call is f(..., name, ...) and every return of f is the parameter bound to `name`."""
        from .prog import bind_call
        if not isinstance(call, ast.Call):
            return False
        callees = [c for c in self.eff.resolve_call(call, mi, ci, fn) if c in self.eff.funcs]
        if not callees:
            return False
        for c in callees:
            cmi, cfn, cci = self.eff.funcs[c]
            drop = cci is not None and not any(unparse(d) == "staticmethod" for d in cfn.decorator_list)
            try:
                b = bind_call(cfn, call, drop_self=drop)
            except AnalysisError:
                return False
            ps = [p for p, a in b.items() if isinstance(a, ast.Name) and a.id == name]
            if len(ps) != 1:
                return False
            rets = [n for n in walk_no_nested(cfn) if isinstance(n, ast.Return) and n.value is not None]
            if not rets or not all(isinstance(r.value, ast.Name) and r.value.id == ps[0] for r in rets):
                return False
        return True

    def _returns_part_of_self(self, fid) -> bool:
        cmi, cfn, cci = self.eff.funcs[fid]
        rets = [r.value for r in walk_no_nested(cfn) if isinstance(r, ast.Return) and r.value is not None]
        return bool(rets) and all(isinstance(r, ast.Attribute) and isinstance(_root(r), ast.Name) and _root(r).id == "self" for r in rets)

    def fresh(self, e: ast.AST, fn, mi: ModuleInfo, ci: Optional[ClassInfo], stack=(), depth=6) -> Tuple[bool, str]:
        if depth <= 0:
            return False, "too deep"
        if isinstance(e, (ast.List, ast.Dict, ast.Set, ast.Tuple, ast.ListComp, ast.DictComp, ast.SetComp,
                          ast.GeneratorExp, ast.Constant, ast.JoinedStr, ast.Compare, ast.BoolOp, ast.UnaryOp,
                          ast.Lambda)):
            return True, "literal"
        if isinstance(e, ast.Subscript):
            if isinstance(e.slice, ast.Slice):
                return True, "slice"
            return False, f"element of {unparse(e.value)[:30]}"
        if isinstance(e, ast.BinOp):
            if isinstance(e.op, ast.Add):
                return True, "concatenation creates a new list/str"
            return True, "arithmetic"
        if isinstance(e, ast.IfExp):
            a, b = self.fresh(e.body, fn, mi, ci, stack, depth - 1), self.fresh(e.orelse, fn, mi, ci, stack, depth - 1)
            return (a[0] and b[0]), (a[1] if not a[0] else b[1])
        if isinstance(e, ast.Call):
            name = dotted(e.func) or ""
            if name in FRESH_CALLS or name.split(".")[-1] in ("deepcopy",):
                return True, name
            if isinstance(e.func, ast.Attribute) and e.func.attr in FRESH_METHODS:
                return True, "." + e.func.attr
            if isinstance(e.func, ast.Attribute) and e.func.attr == "setdefault" and len(e.args) == 2:
                # table.setdefault(k, <new container>) on a table this function created: the entry is the function's own
                a, b = self.fresh(e.func.value, fn, mi, ci, stack, depth - 1), self.fresh(e.args[1], fn, mi, ci, stack, depth - 1)
                if a[0] and b[0]:
                    return True, "entry of a table created here"
            callees = [c for c in self.eff.resolve_call(e, mi, ci, fn) if c in self.eff.funcs]
            if self.prog.resolve_class(e.func, mi) is not None:
                return True, "constructor call"
            # an accessor (`x.list()` returning `self.args_list`) hands out a part of its receiver: as fresh as the receiver
            if isinstance(e.func, ast.Attribute) and not e.args and not e.keywords:
                cands = callees or [fid for fid, (cmi, cfn, cci) in self.eff.funcs.items() if cci is not None and cfn.name == e.func.attr
                                    and len(cfn.args.args) == 1]
                if cands and all(self._returns_part_of_self(c) for c in cands):
                    ok, why = self.fresh(_root(e.func.value), fn, mi, ci, stack, depth - 1)
                    return ok, (f"part of {unparse(e.func.value)[:30]} ({why})")
            if not callees:
                return False, f"result of unresolved call {name or unparse(e.func)[:30]}"
            for c in callees:
                ok, why = self.returns_fresh(c, stack)
                if not ok:
                    return False, why
            return True, "callee returns fresh"
        if isinstance(e, ast.Name):
            if fn is None:
                return False, "module scope"
            binds, killed = reaching_defs(fn, e.id, e)
            if not killed and e.id in func_params(fn):
                return False, f"parameter {e.id}"
            if not binds:
                return False, f"free name {e.id}"
            for b in binds:
                if isinstance(b, ast.AnnAssign):
                    if b.value is None:
                        continue
                    ok, why = self.fresh(b.value, fn, mi, ci, stack, depth - 1)
                    if not ok:
                        return False, f"{e.id} = {unparse(b.value)[:40]} ({why})"
                elif isinstance(b, ast.Assign):
                    # `a, b = [], []`: unpacking a tuple written out element by element binds each name to its own element
                    if len(b.targets) == 1 and isinstance(b.targets[0], (ast.Tuple, ast.List)) and isinstance(b.value, (ast.Tuple, ast.List)) \
                            and len(b.targets[0].elts) == len(b.value.elts) and all(isinstance(t_, ast.Name) for t_ in b.targets[0].elts):
                        k_ = [t_.id for t_ in b.targets[0].elts].index(e.id) if e.id in [t_.id for t_ in b.targets[0].elts] else None
                        if k_ is not None:
                            ok, why = self.fresh(b.value.elts[k_], fn, mi, ci, stack, depth - 1)
                            if not ok:
                                return False, f"{e.id} = {unparse(b.value.elts[k_])[:40]} ({why})"
                            continue
                    # other tuple unpacking: conservative
                    if not (len(b.targets) == 1 and isinstance(b.targets[0], ast.Name)):
                        return False, f"{e.id} bound by unpacking"
                    # x = f(x, ...) where f returns the parameter it was given: same object
                    if self._returns_own_argument(b.value, e.id, fn, mi, ci):
                        continue
                    ok, why = self.fresh(b.value, fn, mi, ci, stack, depth - 1)
                    if not ok:
                        return False, f"{e.id} = {unparse(b.value)[:40]} ({why})"
                elif isinstance(b, ast.AugAssign):
                    continue
                elif isinstance(b, (ast.For, ast.comprehension)) and _walker_arguments(fn, mi, b.iter) is not None:
                    # the variable walks over parts of what a local generator was given: as fresh as those arguments
                    for a_ in _walker_arguments(fn, mi, b.iter):
                        ok, why = self.fresh(_root(a_), fn, mi, ci, stack, depth - 1)
                        if not ok:
                            return False, f"{e.id} walks over parts of {unparse(a_)[:30]} ({why})"
                    continue
                elif isinstance(b, (ast.For, ast.comprehension)):
                    cands = self._table_column(b, e.id, fn)
                    if cands is not None:
                        for cx in cands:
                            ok, why = self._fresh_or_own_attr(cx, fn, mi, ci, stack, depth - 1)
                            if not ok:
                                return False, f"{e.id} iterates over a table holding {unparse(cx)[:30]} ({why})"
                        continue
                    return False, f"{e.id} iterates over {unparse(b.iter)[:40]}"
                else:
                    return False, f"{e.id} bound by {type(b).__name__}"
            return True, "local bound to fresh values only"
        if isinstance(e, ast.Attribute):
            return False, f"attribute {unparse(e)[:40]}"
        return False, type(e).__name__


# ------------------------------------------------------------------------------------------------------------------
# Ownership along an access path.  `fresh` answers "is this object new"; a modification of `x.a.b[0]` needs more: the
# object *reached* through .a, .b and [0] has to belong to this computation as well - a shallow copy shares everything
# below its first level with the original.  `owned_path(e, steps)` follows the access path backwards through bindings,
# re-bound attributes (`m2 = copy.copy(m); m2.args = <new list>`), local helpers, accessors and constructors.
ELEM = ("elem",)
DEEP = ("deep",)          # any number of further steps: only a deep copy / a freshly parsed tree / all-new literals qualify
SHALLOW_COPY_CALLS = {"copy.copy", "copy", "list", "tuple", "sorted", "reversed", "set", "frozenset", "dict"}
SHALLOW_COPY_METHODS = {"copy", "values", "asList", "as_list"}
ELEMENT_METHODS = {"get", "pop", "popitem", "setdefault"}
PARSE_CALLS = {"parseString", "parse_string", "parseFile", "parse_file"}


class Frame:
    """One activation in which names are read: the function, and what its parameters (or comprehension variables)
    stand for as (expression, steps to append, frame of that expression)."""
    __slots__ = ("fn", "mi", "ci", "env", "outer")

    def __init__(self, fn, mi, ci, env=None, outer=None):
        self.fn, self.mi, self.ci, self.env, self.outer = fn, mi, ci, dict(env or {}), outer

    def child(self, extra):
        f = Frame(self.fn, self.mi, self.ci, self.env, self.outer)
        f.env.update(extra)
        return f


def _steps_text(steps) -> str:
    return "".join("." + s[1] if s[0] == "attr" else ("[*]" if s == ELEM else ".**") for s in steps) or "(itself)"


def _rest(steps):
    """The steps that remain after one step has been taken (a DEEP marker is never used up)."""
    return steps if steps and steps[0] == DEEP else steps[1:]


def _attr_stores(fn, name: str, attr: str):
    return [st for st in walk_no_nested(fn) if isinstance(st, ast.Assign) and len(st.targets) == 1
            and isinstance(st.targets[0], ast.Attribute) and isinstance(st.targets[0].value, ast.Name)
            and st.targets[0].value.id == name and st.targets[0].attr == attr]


def _element_feeds(fn, name: str):
    """(value expression, 'element' | 'elements') for everything put into the local container `name` inside fn."""
    out = []
    for n in walk_no_nested(fn):
        if isinstance(n, ast.Assign):
            for t in n.targets:
                if isinstance(t, ast.Subscript) and isinstance(t.value, ast.Name) and t.value.id == name and not isinstance(t.slice, ast.Slice):
                    out.append((n.value, "element"))
        elif isinstance(n, ast.Call) and isinstance(n.func, ast.Attribute) and isinstance(n.func.value, ast.Name) and n.func.value.id == name:
            if n.func.attr in ("append", "add") and n.args:
                out.append((n.args[0], "element"))
            elif n.func.attr in ("insert", "setdefault") and len(n.args) == 2:
                out.append((n.args[1], "element"))
            elif n.func.attr in ("extend", "update") and n.args:
                out.append((n.args[0], "elements"))
    return out


def _owned_path(self, e: ast.AST, steps, fr: Frame, depth: int = 40, stack=()) -> Tuple[bool, str]:
    """The object that `e` followed by `steps` denotes was created by the computation in view (so nobody else holds it)."""
    if depth <= 0:
        return False, "access path too long to follow"
    steps = list(steps)
    rec = lambda x, st, f=fr: _owned_path(self, x, st, f, depth - 1, stack)          # noqa: E731
    if isinstance(e, ast.Attribute):
        r0 = _root(e)
        if isinstance(r0, ast.Name) and r0.id == "self" and fr.fn is not None and fr.fn.name != "__init__" and fr.ci is not None \
                and isinstance(e.value, ast.Name):
            # `self.<attr>` itself: state of the object whose method this is (an accumulator the object keeps; whether it is reset is R3's business)
            init_ = self.prog.find_method(fr.ci, "__init__")
            if init_ is not None and any(isinstance(st, (ast.Assign, ast.AnnAssign)) and st.value is not None and isinstance(st.value, (ast.List, ast.Dict, ast.Set))
                                         and any(unparse(t) == unparse(e) for t in (st.targets if isinstance(st, ast.Assign) else [st.target]))
                                         for st in walk_no_nested(init_[1])):
                return True, f"{unparse(e)} is a container the object created for itself"
        return rec(e.value, [("attr", e.attr)] + steps)
    if isinstance(e, ast.Subscript):
        if isinstance(e.slice, ast.Slice):
            return (True, "slice") if not steps else rec(e.value, steps)
        return rec(e.value, [ELEM] + steps)
    if isinstance(e, ast.Starred):
        return rec(e.value, steps)
    if isinstance(e, (ast.Constant, ast.JoinedStr, ast.Compare, ast.UnaryOp, ast.Lambda)):
        return True, "immutable value"
    if isinstance(e, ast.IfExp):
        a, b = rec(e.body, steps), rec(e.orelse, steps)
        return (a[0] and b[0]), (a[1] if not a[0] else b[1])
    if isinstance(e, ast.BoolOp):
        for v in e.values:
            ok, why = rec(v, steps)
            if not ok:
                return False, why
        return True, "every operand"
    if isinstance(e, ast.BinOp):
        if not steps:
            return True, "new value"
        if isinstance(e.op, ast.Add):
            a, b = rec(e.left, steps), rec(e.right, steps)
            return (a[0] and b[0]), (a[1] if not a[0] else b[1])
        return True, "arithmetic"
    if isinstance(e, (ast.List, ast.Tuple, ast.Set)):
        if not steps:
            return True, "literal"
        if steps[0] not in (ELEM, DEEP):
            return False, f"{_steps_text(steps[:1])} of a literal sequence"
        for x in e.elts:
            ok, why = rec(x, _rest(steps))
            if not ok:
                return False, f"element {unparse(x)[:30]} ({why})"
        return True, "every element is new"
    if isinstance(e, ast.Dict):
        if not steps:
            return True, "literal"
        if steps[0] not in (ELEM, DEEP):
            return False, f"{_steps_text(steps[:1])} of a dict literal"
        for x in e.values:
            ok, why = rec(x, _rest(steps))
            if not ok:
                return False, f"value {unparse(x)[:30]} ({why})"
        return True, "every value is new"
    if isinstance(e, (ast.ListComp, ast.SetComp, ast.GeneratorExp, ast.DictComp)):
        if not steps:
            return True, "comprehension"
        if steps[0] not in (ELEM, DEEP):
            return False, f"{_steps_text(steps[:1])} of a comprehension"
        extra = {}
        f2 = fr
        for g in e.generators:
            if isinstance(g.target, ast.Name):
                extra[g.target.id] = (g.iter, [ELEM], f2)
                f2 = fr.child(extra)
        elt = e.value if isinstance(e, ast.DictComp) else e.elt
        ok, why = _owned_path(self, elt, _rest(steps), f2, depth - 1, stack)
        return ok, (f"element {unparse(elt)[:30]} ({why})" if not ok else "every element is new")
    if isinstance(e, ast.Name):
        return _owned_name(self, e, steps, fr, depth, stack)
    if isinstance(e, ast.Call):
        return _owned_call(self, e, steps, fr, depth, stack)
    if not steps:
        return self.fresh(e, fr.fn, fr.mi, fr.ci)
    return False, f"{type(e).__name__} {unparse(e)[:30]}"


def _owned_name(self, e: ast.Name, steps, fr: Frame, depth, stack) -> Tuple[bool, str]:
    rec = lambda x, st, f=fr: _owned_path(self, x, st, f, depth - 1, stack)          # noqa: E731
    if e.id in fr.env:
        x, pre, f2 = fr.env[e.id]
        ok, why = _owned_path(self, x, list(pre) + steps, f2, depth - 1, stack)
        return ok, (f"{e.id} stands for {unparse(x)[:30]}{_steps_text(pre) if pre else ''} ({why})" if not ok else why)
    fn = fr.fn
    inside = any(x is e for x in ast.walk(fn))
    if not inside:
        return False, f"name {e.id} read outside the function in view"
    binds, killed = reaching_defs(fn, e.id, e)
    if not killed and e.id in func_params(fn):
        return False, f"parameter {e.id}"
    if not binds:
        if fr.outer is not None and e.id not in local_assignments(fn):
            # a variable of the enclosing function, read by a nested helper: every binding it has there
            o = fr.outer
            if e.id in o.env:
                x, pre, f2 = o.env[e.id]
                return _owned_path(self, x, list(pre) + steps, f2, depth - 1, stack)
            if e.id in func_params(o.fn):
                return False, f"parameter {e.id} of the enclosing function"
            vals = [st.value for st in walk_no_nested(o.fn) if isinstance(st, ast.Assign) and len(st.targets) == 1
                    and isinstance(st.targets[0], ast.Name) and st.targets[0].id == e.id]
            if not vals:
                return False, f"free name {e.id}"
            for v in vals:
                ok, why = _owned_path(self, v, steps, o, depth - 1, stack)
                if not ok:
                    return False, f"{e.id} = {unparse(v)[:40]} ({why})"
            return True, "variable of the enclosing function bound to new values only"
        return False, f"free name {e.id}"
    # `x = copy.copy(y); x.a = <new>`: the first step is answered by the store when one certainly happened before this read
    if steps and steps[0][0] == "attr":
        stores = [st for st in _attr_stores(fn, e.id, steps[0][1])
                  if reaching_defs(fn, e.id, st.targets[0].value)[0] == binds]
        certain = [st for st in stores if parent(st) is fn and st.lineno < e.lineno]
        if certain:
            for st in stores:
                ok, why = rec(st.value, steps[1:])
                if not ok:
                    return False, f"{e.id}.{steps[0][1]} = {unparse(st.value)[:40]} ({why})"
            return True, f"{e.id}.{steps[0][1]} was bound to a new value"
    for b in binds:
        if isinstance(b, ast.AnnAssign):
            if b.value is None:
                continue
            ok, why = rec(b.value, steps)
            if not ok:
                return False, f"{e.id} = {unparse(b.value)[:40]} ({why})"
        elif isinstance(b, ast.Assign):
            if not (len(b.targets) == 1 and isinstance(b.targets[0], ast.Name)):
                return False, f"{e.id} bound by unpacking"
            ok, why = rec(b.value, steps)
            if not ok:
                return False, f"{e.id} = {unparse(b.value)[:40]} ({why})"
        elif isinstance(b, ast.AugAssign):
            if steps and steps[0] in (ELEM, DEEP):
                ok, why = rec(b.value, steps)
                if not ok:
                    return False, f"{e.id} += {unparse(b.value)[:40]} ({why})"
        elif isinstance(b, (ast.For, ast.comprehension)):
            if isinstance(b.target, ast.Name):
                ok, why = rec(b.iter, [ELEM] + steps)
                if ok:
                    continue
            if not steps:
                ok2, why2 = self.fresh(e, fn, fr.mi, fr.ci)       # walkers over own arguments, literal tables
                if ok2:
                    continue
            if not isinstance(b.target, ast.Name):
                return False, f"{e.id} bound by unpacking the elements of {unparse(b.iter)[:40]}"
            return False, f"{e.id} iterates over {unparse(b.iter)[:40]} ({why})"
        else:
            return False, f"{e.id} bound by {type(b).__name__}"
    # a container built here holds what this function puts into it
    if steps and steps[0] in (ELEM, DEEP):
        for v, kind in _element_feeds(fn, e.id):
            ok, why = rec(v, _rest(steps) if kind == "element" else steps)
            if not ok:
                return False, f"{e.id} receives {unparse(v)[:40]} ({why})"
    return True, "local bound to new values only"


def _callee_frames(self, e: ast.Call, fr: Frame):
    """Frames in which the callees of `e` run (parameters standing for the arguments), or None when a callee is unknown."""
    from .prog import bind_call
    out = []
    f = e.func
    if isinstance(f, ast.Name):
        scope, o = fr.fn, fr
        while scope is not None:
            local = [g for g in ast.walk(scope) if isinstance(g, ast.FunctionDef) and g is not scope and g.name == f.id]
            if local:
                g = local[0]
                try:
                    b = bind_call(g, e, drop_self=False)
                except AnalysisError:
                    return None
                env = {p: (a, [], fr) for p, a in b.items() if not p.startswith("<")}
                holder = o if scope is o.fn else fr
                return [(g, Frame(g, fr.mi, fr.ci, env, outer=Frame(scope, holder.mi, holder.ci, holder.env, holder.outer)))]
            o = o.outer if o is not None else None
            scope = o.fn if o is not None else None
    callees = [c for c in self.eff.resolve_call(e, fr.mi, fr.ci, fr.fn) if c in self.eff.funcs]
    if not callees:
        return None
    for c in callees:
        cmi, cfn, cci = self.eff.funcs[c]
        static = any(unparse(d) in ("staticmethod",) for d in cfn.decorator_list)
        drop = cci is not None and not static
        try:
            b = bind_call(cfn, e, drop_self=drop)
        except AnalysisError:
            return None
        env = {p: (a, [], fr) for p, a in b.items() if not p.startswith("<")}
        if drop and isinstance(f, ast.Attribute) and cfn.args.args:
            recv = f.value
            if not (isinstance(recv, ast.Call) and isinstance(recv.func, ast.Name) and recv.func.id == "super"):
                env[cfn.args.args[0].arg] = (recv, [], fr)
        out.append((cfn, Frame(cfn, cmi, cci, env)))
    return out


def _owned_call(self, e: ast.Call, steps, fr: Frame, depth, stack) -> Tuple[bool, str]:
    from .prog import bind_call
    rec = lambda x, st, f=fr: _owned_path(self, x, st, f, depth - 1, stack)          # noqa: E731
    name = dotted(e.func) or ""
    last = name.split(".")[-1]
    if last == "deepcopy":
        return True, "deep copy"
    if last in PARSE_CALLS:
        return True, "freshly parsed tree"
    # an accessor (`x.list()` returning `self.args_list`): the object handed out is that part of the receiver - it is owned only if
    # the receiver owns it that far down (a shallow copy of the receiver shares it with the original)
    if isinstance(e.func, ast.Attribute) and not e.args and not e.keywords and self.prog.resolve_class(e.func, fr.mi) is None:
        callees_ = [c for c in self.eff.resolve_call(e, fr.mi, fr.ci, fr.fn) if c in self.eff.funcs]
        cands_ = callees_ or [fid for fid, (cmi, cfn, cci) in self.eff.funcs.items() if cci is not None and cfn.name == e.func.attr and len(cfn.args.args) == 1]
        if cands_ and all(self._returns_part_of_self(c) for c in cands_):
            attrs_ = set()
            for c in cands_:
                for r_ in walk_no_nested(self.eff.funcs[c][1]):
                    if isinstance(r_, ast.Return) and isinstance(r_.value, ast.Attribute) and isinstance(r_.value.value, ast.Name):
                        attrs_.add(r_.value.attr)
                    elif isinstance(r_, ast.Return) and r_.value is not None:
                        attrs_.add(None)
            if len(attrs_) == 1 and None not in attrs_:
                ok, why = rec(e.func.value, [("attr", next(iter(attrs_)))] + steps)
                return ok, f"part of {unparse(e.func.value)[:30]} ({why})"
    if not steps:
        ok, why = self.fresh(e, fr.fn, fr.mi, fr.ci)
        if ok:
            return ok, why
    elif name in SHALLOW_COPY_CALLS and len(e.args) == 1 and self.prog.resolve_class(e.func, fr.mi) is None:
        ok, why = rec(e.args[0], steps)
        return ok, (f"{name}() copies one level only: {_steps_text(steps)} is shared with {unparse(e.args[0])[:30]} ({why})" if not ok else why)
    elif name in ("enumerate", "zip", "map", "filter", "range", "len", "str", "int", "float", "bool", "repr"):
        return (False, f"{_steps_text(steps)} of {name}(...)") if name in ("enumerate", "zip", "map", "filter") else (True, "immutable value")
    elif isinstance(e.func, ast.Attribute) and e.func.attr in SHALLOW_COPY_METHODS and not e.args:
        callees = [c for c in self.eff.resolve_call(e, fr.mi, fr.ci, fr.fn) if c in self.eff.funcs]
        if not callees:
            ok, why = rec(e.func.value, steps)
            return ok, (f".{e.func.attr}() copies one level only ({why})" if not ok else why)
    elif isinstance(e.func, ast.Attribute) and e.func.attr in ELEMENT_METHODS and self.fresh(e.func.value, fr.fn, fr.mi, fr.ci)[0]:
        ok, why = rec(e.func.value, [ELEM] + steps)
        if e.func.attr == "setdefault" and len(e.args) == 2 and ok:
            ok, why = rec(e.args[1], steps)
        return ok, why
    elif isinstance(e.func, ast.Attribute) and e.func.attr in FRESH_METHODS and e.func.attr not in ("get", "copy", "values", "items", "asList", "as_list"):
        return True, "text"
    cls = self.prog.resolve_class(e.func, fr.mi)
    if cls is not None:
        if not steps:
            return True, "constructor call"
        m = self.prog.find_method(cls, "__init__")
        if m is None:
            return False, f"{cls.qual} has no constructor in view"
        init = m[1]
        try:
            b = bind_call(init, e, drop_self=True)
        except AnalysisError as ex:
            return False, str(ex)
        env = {p: (a, [], fr) for p, a in b.items() if not p.startswith("<")}
        a_ = init.args
        pos = [x.arg for x in a_.posonlyargs + a_.args]
        for p_, d in list(zip(pos[len(pos) - len(a_.defaults):], a_.defaults)) + [(k.arg, d) for k, d in zip(a_.kwonlyargs, a_.kw_defaults) if d is not None]:
            if p_ not in env and isinstance(d, ast.Constant):
                env[p_] = (d, [], fr)
        f2 = Frame(init, m[0].mod, m[0], env)
        if steps[0] == DEEP:
            for p_, (a, _, _) in env.items():
                ok, why = rec(a, steps)
                if not ok:
                    return False, f"{cls.name}({p_}={unparse(a)[:30]}) ({why})"
            return True, "constructed from new values only"
        if steps[0][0] != "attr":
            return False, f"element of a {cls.name}"
        attr = steps[0][1]
        vals = [st.value for st in walk_no_nested(init) if isinstance(st, (ast.Assign, ast.AnnAssign)) and st.value is not None
                and any(isinstance(t, ast.Attribute) and isinstance(t.value, ast.Name) and t.value.id == pos[0] and t.attr == attr
                        for t in (st.targets if isinstance(st, ast.Assign) else [st.target]))]
        if not vals:
            return False, f"{cls.name}.__init__ does not bind .{attr}"
        key = ("init", id(e), attr, tuple(steps))          # the same call expression met again: recursion
        if key in stack:
            return True, "recursive"
        for v in vals:
            ok, why = _owned_path(self, v, steps[1:], f2, depth - 1, stack + (key,))
            if not ok:
                return False, f"{cls.name}.{attr} = {unparse(v)[:30]} ({why})"
        return True, f"{cls.name}.{attr} holds a new value"
    frames = _callee_frames(self, e, fr)
    if frames is None:
        return False, f"result of unresolved call {name or unparse(e.func)[:30]}"
    for g, f2 in frames:
        key = ("call", id(e), id(g), tuple(steps))            # the same call expression met again: recursion
        if key in stack:
            continue
        outs = [(n.value, "ret") for n in walk_no_nested(g) if isinstance(n, ast.Return) and n.value is not None]
        ys = [n for n in walk_no_nested(g) if isinstance(n, (ast.Yield, ast.YieldFrom))]
        if ys:
            if not steps:
                continue            # a generator object is new
            if steps[0] not in (ELEM, DEEP):
                return False, f"{_steps_text(steps[:1])} of a generator"
            outs = [(y.value, "yield" if isinstance(y, ast.Yield) else "from") for y in ys if y.value is not None]
        for v, kind in outs:
            st = steps if kind in ("ret", "from") else _rest(steps)
            ok, why = _owned_path(self, v, st, f2, depth - 1, stack + (key,))
            if not ok:
                return False, f"{g.name}() hands out {unparse(v)[:30]} ({why})"
    return True, "every callee hands out a new value"


Fresh.owned_path = lambda self, e, steps, fr, depth=40: _owned_path(self, e, steps, fr, depth)


def _walker_arguments(fn, mi, it: ast.AST) -> Optional[List[ast.AST]]:
    """If `it` is a call of a generator defined in this function or module that yields nothing but parts of its own
    parameters (the parameter, an element of one of its attributes, or what a recursive call on such a part yields), the
    call's arguments; None otherwise."""
    if not (isinstance(it, ast.Call) and isinstance(it.func, ast.Name)):
        return None
    cands = [g for g in ast.walk(fn) if isinstance(g, ast.FunctionDef) and g.name == it.func.id and g is not fn]
    if not cands and it.func.id in getattr(mi, "functions", {}):
        cands = [mi.functions[it.func.id]]
    if len(cands) != 1:
        return None
    g = cands[0]
    gp = set(func_params(g))
    ys = [y for y in walk_no_nested(g) if isinstance(y, (ast.Yield, ast.YieldFrom))]
    if not ys:
        return None

    def part(x) -> bool:
        r = _root(x)
        if not isinstance(r, ast.Name):
            return False
        if r.id in gp:
            return True
        return _owner_param(g, r, gp) is not None
    for y in ys:
        if isinstance(y, ast.Yield):
            if y.value is None or not part(y.value):
                return None
        else:
            v = y.value
            if isinstance(v, ast.Call) and isinstance(v.func, ast.Name) and v.func.id == g.name and all(part(a) for a in v.args):
                continue
            if part(v):
                continue
            return None
    return list(it.args)


def reaching_defs(fn, name: str, site: ast.AST):
    """(definitions of `name` that can reach `site`, killed?) - killed means an unconditional
    assignment in an enclosing block precedes the site, so earlier bindings (including a
    parameter of that name) do not reach it."""
    from .prog import stmt_of

    def binds_in(st) -> List[ast.AST]:
        out = []
        for n in ast.walk(st):
            if isinstance(n, (ast.FunctionDef, ast.Lambda)) and n is not st:
                continue
            if isinstance(n, (ast.Assign, ast.AnnAssign, ast.AugAssign)):
                tg = n.targets if isinstance(n, ast.Assign) else [n.target]
                for t in tg:
                    for x in ast.walk(t):
                        if isinstance(x, ast.Name) and x.id == name and isinstance(x.ctx, ast.Store):
                            out.append(n)
            elif isinstance(n, (ast.For, ast.comprehension)):
                for x in ast.walk(n.target):
                    if isinstance(x, ast.Name) and x.id == name:
                        out.append(n)
            elif isinstance(n, ast.With):
                for it in n.items:
                    if it.optional_vars is not None:
                        for x in ast.walk(it.optional_vars):
                            if isinstance(x, ast.Name) and x.id == name:
                                out.append(n)
        return out

    defs: List[ast.AST] = []
    cur = stmt_of(site)
    while cur is not None and cur is not fn:
        p = parent(cur)
        if p is None:
            break
        # loop variable of an enclosing for / comprehension
        if isinstance(p, ast.For) and cur in p.body and any(isinstance(x, ast.Name) and x.id == name for x in ast.walk(p.target)):
            defs.append(p)
            return defs, True
        for fld in ("body", "orelse", "finalbody", "handlers"):
            blk = getattr(p, fld, None)
            if isinstance(blk, list) and cur in blk:
                for st in reversed(blk[: blk.index(cur)]):
                    if isinstance(st, (ast.Assign, ast.AnnAssign)) and st in binds_in(st) and \
                            not isinstance(st, ast.AugAssign):
                        simple = (isinstance(st, ast.Assign) and len(st.targets) == 1 and isinstance(st.targets[0], ast.Name)) \
                            or (isinstance(st, ast.AnnAssign) and isinstance(st.target, ast.Name))
                        if simple:
                            defs.append(st)
                            return defs, True
                    defs += binds_in(st)
                # a loop body can be reached from its own later statements
                if isinstance(p, (ast.For, ast.While)) and cur in p.body:
                    for st in blk[blk.index(cur):]:
                        defs += [d for d in binds_in(st) if d not in defs]
        cur = p
    return defs, False


def _root(e: ast.AST) -> ast.AST:
    """Strip attribute / subscript / call-of-accessor chains down to the root expression."""
    while True:
        if isinstance(e, ast.Attribute):
            e = e.value
        elif isinstance(e, ast.Subscript):
            e = e.value
        else:
            return e


def mutation_sites(fn):
    """(node, base expression, how) for in-place mutations inside fn."""
    for n in walk_no_nested(fn):
        if isinstance(n, ast.Call) and isinstance(n.func, ast.Attribute) and n.func.attr in MUTATORS:
            yield n, n.func.value, "." + n.func.attr + "()"
        elif isinstance(n, ast.Subscript) and isinstance(n.ctx, (ast.Store, ast.Del)):
            yield n, n.value, "item store"
        elif isinstance(n, ast.Attribute) and isinstance(n.ctx, (ast.Store, ast.Del)):
            yield n, n.value, f"attribute store .{n.attr}"
        elif isinstance(n, ast.AugAssign) and isinstance(n.target, ast.Name):
            # += on a list mutates in place; on str/int it rebinds: decide by the operand
            if isinstance(n.value, (ast.List, ast.ListComp)) or (
                    isinstance(n.value, ast.Call) and (dotted(n.value.func) or "") in ("list",)):
                yield n, n.target, "+= list"


def _site_shape(node, fn) -> str:
    """Text of a mutation site with the function's local variables (not its parameters) written as `_`:
    the key under which one site can be exempted, stable under renaming of locals."""
    params = set(func_params(fn))
    c = ast.parse(unparse(node)).body[0]
    for x in ast.walk(c):
        if isinstance(x, ast.Name) and x.id not in params:
            x.id = "_"
    return unparse(c)


def _adoption_in_constructor(node, fn) -> bool:
    """`<child>.parent = self` inside __init__: the node under construction adopts the children it was built
    from.  Any other store to .parent re-attributes an existing node to another scope and is analysed like
    every other in-place modification."""
    st = parent(node)
    return fn.name == "__init__" and isinstance(st, ast.Assign) and isinstance(st.value, ast.Name) and st.value.id == "self"


def rule_mutate_only_fresh(ctx, rep: Report, rid: str, package: str, exempt: Dict[str, str],
                           allow_parent_links: bool = True, min_sites: int = 1):
    fr = Fresh(ctx)
    prog = ctx.prog
    eff = fr.eff
    n = 0
    for fid in sorted(eff.funcs, key=repr):
        if not fid.rel.startswith(package):
            continue
        mi, fn, ci = eff.funcs[fid]
        for node, base, how in mutation_sites(fn):
            root = _root(base)
            key = f"mutation:{fid.qual}:{unparse(node)[:60]}"
            loc = f"{mi.rel}:{node.lineno}"
            # through a call: x.f().append(..)  -> the call result is the root
            if allow_parent_links and how == "attribute store .parent" and _adoption_in_constructor(node, fn):
                n += 1
                rep.add(rid, key, True, "back-link to the owner (a constructor adopting the children it was given)", loc, nontrivial=False)
                continue
            if isinstance(root, ast.Name) and root.id == "self":
                if isinstance(base, ast.Name):
                    continue              # self.x = v : building / updating own state (C14/R3)
                if fn.name != "__init__":
                    continue              # accumulators on self are C14/R3's business, not aliasing
                # self.x.pop(0) / self.x[i] = v inside a constructor: self.x must have been bound
                # to a fresh value by this constructor
                attr = base
                while isinstance(attr, ast.Subscript):
                    attr = attr.value
                vals = [st.value for st in walk_no_nested(fn) if isinstance(st, ast.Assign)
                        and len(st.targets) == 1 and unparse(st.targets[0]) == unparse(attr)]
                vals += [st.value for st in walk_no_nested(fn) if isinstance(st, ast.AnnAssign)
                         and st.value is not None and unparse(st.target) == unparse(attr)]
                bad = [w for ok, w in (fr.fresh(v, fn, mi, ci) for v in vals) if not ok]
                n += 1
                rep.add(rid, key, bool(vals) and not bad,
                        f"{unparse(base)[:40]} is modified in place ({how}) but was bound to a shared "
                        f"value: {bad[:1] or 'not bound in this constructor'}", loc)
                continue
            n += 1
            ekey = f"{fid.qual}:{_site_shape(node, fn)}"
            if ekey in exempt:
                rep.add(rid, key, True, "exempt (this one site): " + exempt[ekey], loc, nontrivial=False)
                continue
            ok, why = fr.owned_path(base, [], Frame(fn, mi, ci))
            if not ok and isinstance(root, ast.Name) and root.id in func_params(fn) and not reaching_defs(fn, root.id, root)[1]:
                # an accumulator parameter is fine when every caller hands in a value it owns (down to the part modified)
                ok2, why2 = _param_fresh_at_callers(fr, fid, root.id, _path_steps(base))
                if ok2:
                    ok, why = True, why2
                else:
                    why = f"{why}; {why2}"
            rep.add(rid, key, ok,
                    f"in-place modification ({how}) of {unparse(base)[:40]}, which is shared ({why}): the "
                    f"change is visible to every other holder of the same object (other instantiations, "
                    f"later queries of the parse tree)" if not ok else why, loc)
        # nested helper functions (closures): their parameters are owned by whoever calls them
        for g in ast.walk(fn):
            if not isinstance(g, ast.FunctionDef) or g is fn:
                continue
            gparams = set(func_params(g))
            calls_g = [c for c in ast.walk(fn) if isinstance(c, ast.Call) and isinstance(c.func, ast.Name) and c.func.id == g.name]
            for node, base, how in mutation_sites(g):
                root = _root(base)
                if not isinstance(root, ast.Name):
                    continue
                n += 1
                key = f"mutation:{fid.qual}.{g.name}:{unparse(node)[:60]}"
                loc = f"{mi.rel}:{node.lineno}"
                if allow_parent_links and how == "attribute store .parent" and _adoption_in_constructor(node, fn):
                    rep.add(rid, key, True, "back-link to the owner", loc, nontrivial=False)
                    continue
                owner = _owner_param(g, root, gparams)
                gframe = Frame(g, mi, ci, outer=Frame(fn, mi, ci))
                if owner is None:
                    ok, why = fr.owned_path(base, [], gframe)
                    rep.add(rid, key, ok, f"in-place modification ({how}) of {unparse(base)[:40]}, which is shared ({why})"
                            if not ok else why, loc)
                    continue
                bad = []
                # what of the argument is modified: the named part when the helper touches its parameter directly and
                # does not recurse, otherwise anything below it (loop variables over its parts, recursion into them)
                recursive = any(any(x is c for x in ast.walk(g)) for c in calls_g)
                need = _path_steps(base) if (root.id == owner and not recursive) else [DEEP]
                for c in calls_g:
                    inside = enclosing(c, ast.FunctionDef) is g or any(x is c for x in ast.walk(g))
                    idx = func_params(g).index(owner)
                    arg = c.args[idx] if idx < len(c.args) else next((k.value for k in c.keywords if k.arg == owner), None)
                    if arg is None:
                        continue
                    aroot = _root(arg)
                    if inside:
                        if not (isinstance(aroot, ast.Name) and _owner_param(g, aroot, gparams) is not None):
                            ok2, why2 = fr.owned_path(arg, need, gframe)
                            if not ok2:
                                bad.append(f"recursive call passes {unparse(arg)[:30]} ({why2})")
                    else:
                        ok2, why2 = fr.owned_path(arg, need, Frame(fn, mi, ci))
                        if not ok2:
                            bad.append(f"{fid.qual} passes {unparse(arg)[:30]} ({why2})")
                rep.add(rid, key, bool(calls_g) and not bad,
                        f"in-place modification ({how}) of {unparse(base)[:40]} inside helper {g.name}: "
                        f"{'; '.join(bad) or 'helper is never called'}" if (bad or not calls_g) else
                        f"every caller of {g.name} passes a value it owns", loc)
    rep.units.setdefault("mutation_sites", 0)
    rep.units["mutation_sites"] += n
    if n < min_sites:
        raise AnalysisError(f"{rep.prop}/{rid}: only {n} mutation sites found in {package} (>= {min_sites} expected)")


def _owner_param(g, root: ast.Name, gparams) -> Optional[str]:
    """The parameter of g that `root` is, or iterates over (for x in <param>.attr ...)."""
    if root.id in gparams:
        binds, killed = reaching_defs(g, root.id, root)
        if not killed:
            return root.id
    binds, _ = reaching_defs(g, root.id, root)
    for b in binds:
        if isinstance(b, (ast.For, ast.comprehension)):
            it = b.iter
            if isinstance(it, ast.Call) and isinstance(it.func, ast.Name) and it.func.id in ("enumerate", "reversed"):
                it = it.args[0]
            r = _root(it)
            if isinstance(r, ast.Name) and r.id in gparams:
                return r.id
    return None


def _path_steps(base: ast.AST) -> list:
    """The attribute / element steps from the root name of `base` down to the object it denotes."""
    out = []
    e = base
    while isinstance(e, (ast.Attribute, ast.Subscript)):
        if isinstance(e, ast.Attribute):
            out.insert(0, ("attr", e.attr))
        elif not isinstance(e.slice, ast.Slice):
            out.insert(0, ELEM)
        e = e.value
    return out if isinstance(e, ast.Name) else [DEEP]


def _param_fresh_at_callers(fr: Fresh, fid: FuncId, pname: str, steps=()) -> Tuple[bool, str]:
    from .prog import bind_call
    eff = fr.eff
    mi, fn, ci = eff.funcs[fid]
    sites = []
    for cf, (cmi, cfn, cci) in eff.funcs.items():
        for c in walk_no_nested(cfn):
            if isinstance(c, ast.Call) and fid in eff.resolve_call(c, cmi, cci, cfn):
                sites.append((cf, cmi, cfn, cci, c))
    if not sites:
        return False, f"no caller of {fid.qual} found"
    outside = sorted({cmi.rel for cf, cmi, cfn, cci, c in sites if cmi.rel.startswith("scripts/")})
    if outside:
        # an entry point of the library: the command-line scripts call it, and so does every other user of the API
        return False, (f"{fid.qual} is an entry point of the library (called from {outside[0]}): its callers are not all in view, "
                       f"the object belongs to whoever calls it")
    for cf, cmi, cfn, cci, c in sites:
        drop = ci is not None and not any(unparse(d) == "staticmethod" for d in fn.decorator_list)
        try:
            b = bind_call(fn, c, drop_self=drop)
        except AnalysisError as e:
            return False, str(e)
        if pname not in b:
            continue        # the parameter's default is used: nothing shared is handed in
        if cf == fid and isinstance(b[pname], ast.Name) and b[pname].id == pname:
            # the function hands its own accumulator on to itself: fresh by induction when every value the
            # function itself binds to the name is fresh (the other callers are judged below / above)
            rebinds = [st.value for st in walk_no_nested(fn) if isinstance(st, ast.Assign) and len(st.targets) == 1
                       and isinstance(st.targets[0], ast.Name) and st.targets[0].id == pname]
            bad = [w for okv, w in (fr.owned_path(v, list(steps), Frame(fn, mi, ci)) for v in rebinds) if not okv]
            if bad:
                return False, f"{fid.qual} rebinds {pname} to a shared value ({bad[0]}) and passes it on to itself"
            continue
        ok, why = fr.owned_path(b[pname], list(steps), Frame(cfn, cmi, cci))
        if not ok:
            return False, f"caller {cf.qual} passes a shared value for {pname} ({why})"
    return True, f"every caller passes a value it created for {pname}"
