"""C14 - generation is a pure, repeatable function of inputs and options (Engine F effects)."""
from .. import rules_flow as RF

ID = "C14"
EXPLANATION = (
    "Effect analysis over the call graph from the public entry points (both generators, wrap_submodule, "
    "both scripts). R1: no reachable function reads a non-deterministic source (time, random, environment, "
    "cwd, directory listings, id/hash, ...). R2: no set is created and used beyond membership tests "
    "anywhere in gtwrap/scripts, so nothing hash-seed dependent can reach the output. R3: every attribute "
    "mutated on a path from PybindWrapper.wrap_file - including on helper objects held by the wrapper - is "
    "re-initialised by wrap_file, and no class-level or module-level container, `global` or process-wide memo decorator is mutated/used at run time (MatlabWrapper is single-use: wrap() is its only public entry and never "
    "resets anything; exempt by name). R4: the path of every write site is derived from an output-location "
    "parameter of a public entry point at every call site on the way, or is <stem>+constant suffix that "
    "cannot coincide with an interface file. R5: every read site's path derives from a given input, the "
    "given template/XML folder or the bundled template next to the module. R6: every output is written by "
    "one write() of a finished text right after its open(). OS-level atomicity under concurrent writers of "
    "the same target is not decided.")
EXPLANATION += (
    ' R7: scalar attributes re-assigned with literals while declarations are processed are assigned on every path before they are read (must-definition analysis through unconditional self-calls, with call-site context). R8: the key of every compute-once table covers everything the stored value is computed from. Both carry a built-in positive and negative example analysed on every run.')
ASSUMPTIONS = [
    "list/dict iteration order is insertion order (CPython >= 3.7); sorted() is stable",
    "callee resolution as in C07; print() to stdout is not an output file",
    "MatlabWrapper objects are single-use (exempt from R3 by name)",
]


def run(ctx, rep):
    rep.run(RF.rule_no_nondeterminism, ctx, rep, "R1")
    rep.run(RF.rule_no_unordered, ctx, rep, "R2")
    rep.require_min("R2", 20)
    rep.run(RF.rule_accumulators, ctx, rep, "R3")
    rep.run(RF.rule_no_shared_state, ctx, rep, "R3")
    rep.run(RF.rule_write_provenance, ctx, rep, "R4", min_sites=4)
    rep.run(RF.rule_read_sites, ctx, rep, "R5", min_sites=4)
    rep.run(RF.rule_whole_file_writes, ctx, rep, "R6", min_sites=3)
    rep.run(RF.rule_item_state_defined_before_use, ctx, rep, "R7")
    rep.run(RF.rule_memo_key_complete, ctx, rep, "R8")
    rep.run(RF.rule_directory_creation_tolerates_races, ctx, rep, "R9")
    rep.run(RF.rule_text_files_name_their_encoding, ctx, rep, "R10")
    rep.run(RF.rule_configuration_is_fixed, ctx, rep, "R11")
    rep.run(RF.rule_locals_defined, ctx, rep, "U1", packages=("gtwrap/", "scripts/"), min_functions=3)
