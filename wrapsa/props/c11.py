"""C11 - MEX gateway calls reach the right C++ code and never leak or double-free (Engines E, X)."""
from .. import rules_matlab as RM
from .. import rules_header as RH
from .. import rules_header2 as RH2
from .. import rules_ids as RID
from .. import rules_flow as RF

ID = "C11"
EXPLANATION = (
    "Decides the per-routine ownership obligations; the quantifier over call histories is then covered by the "
    "usual inductive-invariant argument (if every routine preserves 'collector_X = handles owned by live MATLAB "
    "objects of X', every sequence does) - but only for what the obligations state. The routine bodies are C++ "
    "inside Python string templates: they are constant-folded (Engine E), tokenised, variables are bound "
    "(`Shared *self = new Shared(...)` binds self) and their uses followed. H1: every routine that heap-allocates "
    "a handle inserts that variable into the class's collector and stores it in out[0]; the up-cast routine's "
    "handle is registered by the collector call that unconditionally follows in the .m constructor. H2: the "
    "destructor routine reads the handle, erases it from the collector when found and deletes it exactly once, "
    "after the erase; the unload clean-up deletes each remaining handle once. H3: every routine that creates or "
    "inserts a handle registers mexAtExit(&_deleteAllObjects) first. H4: the base-class handle is a new "
    "SharedBase(*self) written to the out[] slot the .m constructor passes on. H5 (clang AST of matlab.h): the "
    "handle array holds a std::shared_ptr<Class>*, every reader reinterprets it at that type before "
    "dereferencing, unwrap_shared_ptr validates first and returns a copy, create_object frees what it "
    "allocates. Not decided: histories under MATLAB's object lifetime rules, exceptions thrown by user code "
    "between allocation and registration, correctness of the callee (C06).")
EXPLANATION += (
    " H6: every value handed to wrap_shared_ptr / the shared-return template is the callee's own shared pointer passed through or a std::make_shared copy, never a shared_ptr constructed around an address. H7: no compute-once table in the MATLAB wrapper is keyed by a mere projection of what its value is computed from (e.g. enum names per namespace *name*), so marshalling decisions depend on the declaration at hand only.")
EXPLANATION += (
    " H9: the two builders of the .m dispatch conditions (methods / static methods and constructors / free functions) append the same per-argument tests - class test and the fixed-shape tests of Vector, Point2, Point3 - keyed by the declared C++ type, so the argument values select the same overload whatever kind of callable is dispatched (rule shared with C06 M2).")
EXPLANATION += (
    " H13: in the routine of a pair-returning callable every read of the pair names the element selected for the output position being written. "
    "H14: every id allocation site carries its role and embeds the id as the gateway call's first argument; an id without a map entry exists "
    "only as the up-cast slot of a virtual class (the replay loops read any other hole as one and route the neighbouring id to an up-cast "
    "helper) - shared with C05 I3/I4.")
ASSUMPTIONS = ["the .m files are the only client of the gateway (the replay loops are decided by C05 I5)",
               "clang/stubs as in C18"]


def run(ctx, rep):
    rep.run(RM.rule_create_register, ctx, rep, "H1")
    rep.run(RM.rule_destroy_once, ctx, rep, "H2")
    rep.run(RM.rule_unload_hook, ctx, rep, "H3")
    rep.run(RM.rule_base_handle, ctx, rep, "H4")
    rep.run(RM.rule_base_handle_pairing, ctx, rep, "H4")
    rep.run(RM.rule_group_by_name, ctx, rep, "H8")
    rep.run(RH.rule_handle_protocol, ctx, rep, "H5")
    rep.run(RM.rule_return_ownership, ctx, rep, "H6")
    rep.run(RM.rule_copy_exactly_for_values, ctx, rep, "H11")
    # H9: the .m dispatch that selects the routine id tests every argument the same way for every kind of callable
    rep.run(RM.rule_sibling_guards, ctx, rep, "H9")
    # H10: what create_object hands to MATLAB (inputs, count, class name) and where handles are looked up
    rep.run(RH2.rule_matlab_calls, ctx, rep, "H10")
    # H12: argument values reach C++ unchanged: 64-bit integers are read exactly; property routines keep their role (= C05 I6)
    rep.run(RH2.rule_wide_integers_read_exactly, ctx, rep, "H12")
    rep.run(RID.rule_roles, ctx, rep, "H12")
    rep.run(RF.rule_memo_key_complete, ctx, rep, "H7", packages=("gtwrap/matlab_wrapper",), min_functions=50)
    rep.run(RM.rule_pair_element_by_position, ctx, rep, "H13")
    # H14: the id a .m function passes selects the routine of the same entity - every allocated id carries its role, the
    # only id without an entry is the up-cast slot of a virtual class (rules shared with C05 I3 / I4)
    rep.run(RID.rule_sites, ctx, rep, "H14", min_sites=11)
    rep.run(RID.rule_offsets, ctx, rep, "H14")
    # H15: a scalar result reaches MATLAB as the number the C++ entity returned: no lossy conversion before the store (= C18 K3)
    rep.run(RH.rule_scalar_write, ctx, rep, "H15")
    # H16: the pointer constructor keeps the base handle and registers under the collector routine's id (= C05 I9)
    rep.run(RID.rule_pointer_constructor_by_evaluation, ctx, rep, "H16")
    # H17: the supplied argument values reach the C++ entity: every converter rejects exactly what it cannot convert, strings are read whole (= C18 K10)
    rep.run(RH2.rule_guard_truth_tables, ctx, rep, "H17")
    rep.run(RH.rule_strings_by_evaluation, ctx, rep, "H21")
    rep.run(RID.rule_preamble_by_evaluation, ctx, rep, "H22")
    rep.run(RID.rule_registry_keeps_every_class, ctx, rep, "H23")
    rep.run(RID.rule_call_sites_by_evaluation, ctx, rep, "H24", guards=True)
    rep.run(RH2.rule_no_use_after_destroy, ctx, rep, "H25")
    rep.run(RM.rule_guard_builders_by_evaluation, ctx, rep, "H18")
    rep.run(RID.rule_routines_by_evaluation, ctx, rep, "H19")
    rep.run(RID.rule_property_accessors_by_evaluation, ctx, rep, "H20", parts=("sites", "routines"))
    rep.run(RF.rule_locals_defined, ctx, rep, "U1", packages=("gtwrap/matlab_wrapper",), min_functions=3)
