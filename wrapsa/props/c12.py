"""C12 - layout and comments never change the result (Engine G)."""
from .. import rules_flow as RF
from .. import rules_grammar as RG

ID = "C12"
EXPLANATION = (
    "Static analysis of the reconstructed pyparsing grammar. Decides: the comment skipper "
    "(cppStyleComment) is installed unconditionally on the very object parseString is called on and "
    "reaches every sub-expression of the final grammar (L1); outside the two documented verbatim zones no "
    "terminal contains white space or glues identifier characters to punctuation and no layout-sensitive "
    "combinator/option is used (L2); trees are obtained through Module.parseString only (L3); raw-text "
    "constructs occur only inside the verbatim zones (L4). With pyparsing's default white-space skipping "
    "these are the necessary conditions for two re-layouts to tokenise identically. Byte-identical "
    "generator output then follows from equal trees plus C14 and is not re-proved here.")
ASSUMPTIONS = [
    "pyparsing skips default white space and ignore-expressions before every terminal, as documented",
    "ignore() propagates to the sub-expressions reachable when it is called (modelled)",
]


def run(ctx, rep):
    rep.run(RG.rule_comment_skipper, ctx, rep, "L1")
    rep.require_min("L1", 1)
    rep.run(RG.rule_layout_transparent, ctx, rep, "L2")
    rep.run(RG.rule_single_entry, ctx, rep, "L3", min_sites=3)
    rep.run(RG.rule_verbatim_zones, ctx, rep, "L4")
    rep.run(RG.rule_comments_skipped_before_every_token, ctx, rep, "L5")
    rep.run(RF.rule_universal_newlines, ctx, rep, "L6")
    rep.run(RF.rule_text_reaches_the_parser_as_read, ctx, rep, "L7")
    rep.run(RF.rule_parser_keeps_tabs, ctx, rep, "L8")
    rep.run(RF.rule_locals_defined, ctx, rep, "U1", packages=("gtwrap/interface_parser",), min_functions=3)
