"""C09 - generated pybind11 code is well-formed C++ (Engine E)."""
from .. import rules_inst as RN
from .. import rules_flow as RF
from .. import rules_pybind as RP
from .. import rules_xml as RX
from .. import rules_inst as RI
from .. import rules_alias as RA
from .c13 import P1_EXEMPT

ID = "C09"
EXPLANATION = (
    "Static analysis of every text template of gtwrap/pybind_wrapper.py after constant folding, and of the "
    "bundled module templates. W1: every placeholder has a value at its format call and no passed value is "
    "unused (a dropped fragment); the module templates' placeholders are all supplied by wrap_file. W2: the "
    "literal part of every template has balanced () [] {} and quotes (format-escaped braces counted once, "
    "C++ comments skipped); with balanced slot values - other templates by induction, identifiers, to_cpp() "
    "spellings, default-value text (bracket-balanced because DEFAULT_ARG only admits nested brackets through "
    "nestedExpr, C12/L4) - the emitted text is balanced. W3: no namespace prefix is emitted directly in front "
    "of verbatim expression text (a namespaced variable's initialiser). W4 (lambda/keyword arity) = C04/B1 "
    "and W5 (no unsubstituted template parameter, declarations not rewritten in place by an instantiation) = "
    "C02/S1-S2/S7, re-run here. W6: every identifier the generated code introduces itself - the submodule "
    "variables - is declared before use: the def_submodule statement is emitted on the first visit of every "
    "namespace below the top namespace under no further condition, before that namespace's content. 'Compiles against any conforming "
    "library' needs a compiler and the library and is not decided.")
ASSUMPTIONS = ["str.format semantics; slot values that are themselves generated text are balanced by induction over the templates"]


def run(ctx, rep):
    rep.run(RP.rule_slot_completeness, ctx, rep, "W1", min_sites=15)
    rep.run(RP.rule_module_template_keys, ctx, rep, "W1")
    rep.run(RP.rule_balance, ctx, rep, "W2", min_sites=15)
    rep.run(RP.rule_kind_adjacency, ctx, rep, "W3")
    rep.run(RP.rule_one_argument_list, ctx, rep, "W4", min_emitters=4)
    rep.run(RI.rule_coverage, ctx, rep, "W5", min_sites=10)
    rep.run(RI.rule_depth, ctx, rep, "W5")
    rep.run(RI.rule_template_argument_identity, ctx, rep, "W5")
    rep.run(RI.rule_nested_forms, ctx, rep, "W5")
    rep.run(RI.rule_whole_replacement, ctx, rep, "W5")
    rep.run(RI.rule_no_carry_over, ctx, rep, "W5")
    rep.run(RI.rule_scoped_replacement_spelling, ctx, rep, "W5")
    rep.run(RI.rule_simultaneous_substitution, ctx, rep, "W5")
    rep.run(RI.rule_typenames_are_keys, ctx, rep, "W5")
    rep.run(RA.rule_mutate_only_fresh, ctx, rep, "W5", "gtwrap/template_instantiator", P1_EXEMPT, min_sites=20)
    rep.run(RP.rule_submodule_once, ctx, rep, "W6")
    rep.run(RN.rule_typedef_yields_one_instantiation, ctx, rep, "W18")
    # W19: the types the bindings are printed with are the instantiated ones (= C02 S14; W5 defers to this run where it can be made)
    rep.run(RN.rule_instantiate_type_by_evaluation, ctx, rep, "W19", part="substitution")
    rep.run(RP.rule_boost_export_name, ctx, rep, "W7")
    rep.run(RI.rule_cpp_spelling_not_flattened, ctx, rep, "W8")
    rep.run(RP.rule_value_slot_never_empty, ctx, rep, "W9")
    rep.run(RP.rule_templates_are_constant, ctx, rep, "W10")
    # W11: the docstring literal - the one place where arbitrary input text becomes a C++ token - is well-formed for every text
    rep.run(RX.rule_docstring_literal_wellformed, ctx, rep, "W11")
    # W12: the emitters run on sample declarations: the lambda passes on exactly the parameters it declares
    rep.run(RP.rule_lambda_names_by_evaluation, ctx, rep, "W12")
    # W13: a const member is registered def_readonly (def_readwrite of a const member does not compile) (= C04 B5)
    rep.run(RP.rule_property_polarity, ctx, rep, "W13")
    rep.run(RP.rule_class_block_by_evaluation, ctx, rep, "W14", part="wellformed")
    # W15: every operator entry has the form pybind11 knows (`.def(-py::self)`, `.def(py::self - py::self)`): `.def(py::self)` alone matches no overload (= C03 A11)
    rep.run(RP.rule_operator_bindings_by_evaluation, ctx, rep, "W15")
    rep.run(RI.rule_explicit_template_arguments_by_evaluation, ctx, rep, "W16")
    rep.run(RF.rule_locals_defined, ctx, rep, "U1", packages=("gtwrap/pybind_wrapper.py",), min_functions=3)
