"""C15 - ignoring or removing a class affects that class only (Engines F, E)."""
from .. import rules_flow as RF
from .. import rules_cli as RC
from .. import rules_matlab as RM
from .. import rules_pybind as RP

ID = "C15"
EXPLANATION = (
    "Static analysis of both generators. X1: within one generator every membership test against the ignore list "
    "computes its key by the same normal form (locals inlined, the class variable renamed) - otherwise one "
    "artefact of a class is suppressed and another is not. X2: the ignore test dominates every emission made for "
    "the class: pybind - class block, class-scoped enums (= C03/A5); MATLAB - the test in wrap_instantiated_class "
    "returns before any id allocation / text / file entry, and the one in generate_preamble skips the class before "
    "its collector, clean-up entry, RTTI entry and typedef. Every iteration over the registered classes applies the ignore list. X4: the one piece of state shared between class blocks of the pybind generator (the docstring overload memory) is keyed by the class exactly as the emitter spells it. X3: every caller of the function that returns None for "
    "an ignored class tests the result before subscripting it. Equivalence with deleting the declaration for all "
    "inputs, and the consistent renumbering of ids, follow from X1-X3 together with C05 and are not re-proved.")
ASSUMPTIONS = ["an ignore entry is the C++ qualified name without a leading '::' (scripts' --ignore help text)"]


def run(ctx, rep):
    rep.run(RM.rule_one_ignore_key, ctx, rep, "X1")
    rep.run(RP.rule_ignore_dominates, ctx, rep, "X2")
    rep.run(RM.rule_ignore_dominates_matlab, ctx, rep, "X2")
    rep.run(RM.rule_every_class_iteration_filtered, ctx, rep, "X2")
    rep.run(RM.rule_cross_class_state_keyed_by_class, ctx, rep, "X4")
    rep.run(RM.rule_none_result_handled, ctx, rep, "X3")
    rep.run(RM.rule_ignore_entries_match_whole_names, ctx, rep, "X5")
    # X6: where an entity's file goes depends on its own namespace only - every kind of entity is filed under the same package path, so
    # removing (ignoring) the first entity of a scope cannot move its neighbours (= C10/T3)
    rep.run(RM.rule_package_paths, ctx, rep, "X6")
    # X7: nothing computed for one class is carried into the text of the classes that follow it in the same loop
    rep.run(RF.rule_no_state_carried_between_elements, ctx, rep, "X7")
    rep.run(RM.rule_ignore_list_kept_as_given, ctx, rep, "X8")
    # X9: the command-line scripts hand --ignore to the wrappers as given (an entry without `::` names a class at global scope) (= C16 Y3)
    rep.run(RC.rule_option_plumbing, ctx, rep, "X9", only_flags=("--ignore",))
    rep.run(RP.rule_class_handling_consults_ignore_list, ctx, rep, "X10")
    rep.run(RF.rule_locals_defined, ctx, rep, "U1", packages=("gtwrap/matlab_wrapper", "gtwrap/pybind_wrapper.py"), min_functions=3)
