"""C19 - parsing cost stays polynomial: the structural preconditions (Engine G)."""
from .. import rules_flow as RF
from .. import rules_grammar as RG

ID = "C19"
EXPLANATION = (
    "Static analysis of the reconstructed pyparsing grammar and of every Python file of gtwrap/scripts. "
    "Decides the structural necessary conditions for polynomial parsing: packrat memoisation is enabled "
    "unconditionally at import with a cache not smaller than pyparsing's default and is never switched "
    "off or replaced anywhere (Z1); no Forward is left-recursive and no repetition ranges over a nullable "
    "expression (Z3). Z4: on every recursive cycle at most one alternative of any alternation can re-enter the cycle on the same first token(s), unless the memo table is unbounded - with the default 128-entry FIFO memo a second overlapping alternative multiplies the work per nesting level. The recursive cycles that contain alternations - the reason memoisation is required "
    "- are listed (Z2). No timing is measured: a bound on run time is a run-time quantity and is not "
    "claimed.")
EXPLANATION += (
    " Z5: because the memo table is bounded (enablePackrat() keeps 128 entries, FIFO), in every longest-match alternation "
    "the self-recursive alternatives are tried after all others, so that nothing runs between the trial of a recursive "
    "winner and its second parse (otherwise long qualified names evict the nested entries and every level is parsed twice).")
ASSUMPTIONS = [
    "pyparsing's packrat memoisation behaves as documented (cache keyed by (expr, position))",
    "no bound on parse time is claimed; only that memoisation is on and the grammar has no "
    "left recursion / nullable repetition",
]


def run(ctx, rep):
    rep.run(RG.rule_packrat, ctx, rep, "Z1")
    rep.require_min("Z1", 20)
    rep.run(RG.rule_recursion_evidence, ctx, rep, "Z2")
    rep.run(RG.rule_termination, ctx, rep, "Z3")
    rep.run(RG.rule_recursion_fanout, ctx, rep, "Z4")
    rep.run(RG.rule_recursive_alternative_last, ctx, rep, "Z5")
    rep.run(RF.rule_render_once_per_child, ctx, rep, "Z6")
    rep.run(RF.rule_no_reparse_in_actions, ctx, rep, "Z7")
    rep.run(RF.rule_no_superlinear_regex, ctx, rep, "Z8")
    rep.run(RF.rule_recursion_cycles_once_per_child, ctx, rep, "Z9")
    rep.require_min("Z3", 10)
    rep.run(RF.rule_locals_defined, ctx, rep, "U1", packages=("gtwrap/interface_parser",), min_functions=3)
