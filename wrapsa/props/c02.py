"""C02 - template instantiation is exact, capture-free substitution (Engine F)."""
from .. import rules_flow as RF
from .. import rules_alias as RA
from .. import rules_inst as RI
from .c13 import P1_EXEMPT

ID = "C02"
EXPLANATION = (
    "Static analysis of gtwrap/template_instantiator. S1: every parser node built inside the instantiator "
    "(constructor calls and super().__init__ calls of classes that, by the repo's own annotations, carry a "
    "type expression) receives each type-carrying parameter from instantiate_type/args_list/return_type - "
    "followed through locals, attributes, helper returns and, for parameters, every caller; pass-through of "
    "the original is accepted only under a guard that the declaration has no template. Class-level and "
    "member-level typename/instantiation lists are combined in the same order. S2: the rewrite of template "
    "arguments inside instantiate_type is recursive over the argument tree. S3: no substring-level rewrite "
    "(str.replace/translate, re.sub) is applied anywhere in the instantiator. S4: every Type rebuilt in "
    "instantiate_type forwards the five qualifier flags from one source object to the parameters that store "
    "them. S5: rebuilt Arguments/Variables keep name and default. S6: the reserved name This is only "
    "compared by equality / list membership and is replaced by the instantiated class's typename. S7: the "
    "instantiator modifies only objects it created or copied itself (the declaration is the input of every "
    "later instantiation, so an in-place rewrite would make the n-th instantiation depend on the first). Equality "
    "of the resulting C++ spellings for all inputs is a value-level fact and is not decided.")
ASSUMPTIONS = [
    "type-carrying fields are those the parser classes annotate with Type/TemplatedType or a class that "
    "transitively does (ArgumentList, ReturnType, Argument, Variable, Method, ...)",
    "callee resolution as in C07; `construct` classmethods are resolved by name",
]


def run(ctx, rep):
    rep.run(RI.rule_coverage, ctx, rep, "S1", min_sites=10)
    rep.run(RI.rule_parallel_lists, ctx, rep, "S1")
    rep.run(RI.rule_whole_replacement, ctx, rep, "S1")
    rep.run(RI.rule_no_carry_over, ctx, rep, "S1")
    rep.run(RI.rule_typenames_are_keys, ctx, rep, "S3")
    rep.run(RI.rule_depth, ctx, rep, "S2")
    rep.run(RI.rule_nested_forms, ctx, rep, "S2")
    rep.run(RI.rule_whole_identifier, ctx, rep, "S3", exclude={"instantiate_name"})   # naming: C08/N5
    rep.run(RI.rule_qualifier_forwarding, ctx, rep, "S4", min_sites=3)
    rep.run(RI.rule_name_default_forwarding, ctx, rep, "S5")
    rep.run(RI.rule_this, ctx, rep, "S6")
    rep.run(RI.rule_template_argument_identity, ctx, rep, "S8")
    rep.run(RI.rule_scoped_replacement_spelling, ctx, rep, "S9")
    rep.run(RI.rule_instantiated_siblings, ctx, rep, "S10")
    rep.run(RI.rule_argument_roles, ctx, rep, "S11")
    rep.run(RI.rule_simultaneous_substitution, ctx, rep, "S12")
    rep.run(RI.rule_substitution_input_is_the_declaration, ctx, rep, "S15")
    # the declaration is the input of every later instantiation: rewriting it in place makes the second
    # instantiation start from the first one's result
    rep.run(RA.rule_mutate_only_fresh, ctx, rep, "S7", "gtwrap/template_instantiator", P1_EXEMPT, min_sites=20)
    rep.run(RI.rule_positions_of_the_list_itself, ctx, rep, "S13")
    rep.run(RI.rule_instantiate_type_by_evaluation, ctx, rep, "S14", part="substitution")
    rep.run(RF.rule_locals_defined, ctx, rep, "U1", packages=("gtwrap/template_instantiator",), min_functions=3)
