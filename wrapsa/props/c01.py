"""C01 - the parse tree mirrors the source (Engines G, F)."""
from .. import rules_flow as RF
from .. import rules_grammar as RG
from .. import rules_tree as RT
from .. import rules_alias as RA

ID = "C01"
EXPLANATION = (
    "Static analysis of the boundary between the reconstructed pyparsing grammar and the node classes. "
    "For every parse action reachable from the root: every information point of its capture scope "
    "(variable text, nested node, chosen alternative, optional marker) lies under a results name the "
    "action reads or the action consumes the whole token list (G1); every name an action reads is "
    "defined in its scope - the repo's __getattr__ patch would otherwise yield a silent '' (G2); no name "
    "is defined twice on co-occurring paths (G3); the action's call binds to the constructor's signature, "
    "every bound parameter is consumed, and node-typed arguments agree with the constructor's own "
    "annotations (F1). Sibling rules Type/TemplatedType agree (F2); each qualifier marker is followed from "
    "the dialect token to the C++ spelling emitted by to_cpp (F3). Both scopes accept the same declaration "
    "kinds (G4); the seven class-member kinds are routed grammar -> Members list -> Class parameter -> "
    "attribute by type (G5); the parser never re-orders results (G6); first-match alternations cannot "
    "shadow a longer alternative (G7); every in-place modification inside the parser package is applied to a value created on the spot - an accessor whose result callers extend (namespaces(), full_namespaces()) must return a new list on every call, otherwise repeated queries corrupt the stored namespace path (G8); a parse action that returns text instead of a node must return it unchanged on elements whose text is information (F1). Which alternative pyparsing's longest-match Or picks for a truly "
    "ambiguous input is a language question and is not decided.")
EXPLANATION += (
    ' G13: a results name on an alternation of node rules yields the matched node inside a list wrapper; the constructor it is handed to takes it out (subscript / iteration), and a single value is not subscripted.'
    ' G9: every word-like terminal is a Keyword or can only be followed by punctuation (FOLLOW sets over the grammar IR; oneOf is modelled as an alternation of plain literals), so no keyword eats the first letters of an identifier.')
ASSUMPTIONS = [
    "pyparsing results-name semantics as documented: expr(name) copies the element and shares the action; "
    "names inside an element whose action returns a new object are not visible outside it",
    "an unknown results name reads as '' (the repo's ParseResults.__getattr__ patch, modelled)",
    "exemptions (one named symbol each): ENUM alternative; ReturnType.optional_std; G8: two named mutation sites",
]


G8_EXEMPT = {
    "instantiate_namespace:namespace.content":
        "documented in/out parameter: the namespace's content is replaced by its instantiated content (docstring "
        "of instantiate_namespace)",
    "MatlabWrapper._expand_default_arguments:method.args.backup":
        "additive annotation: a copy of the argument list is attached under a new attribute, no declared field changes",
}


def run(ctx, rep):
    rep.run(RT.rule_capture_complete, ctx, rep, "G1", min_actions=20)
    rep.require_min("G1", 45)
    rep.run(RT.rule_no_phantom_read, ctx, rep, "G2")
    rep.require_min("G2", 40)
    rep.run(RT.rule_no_clash, ctx, rep, "G3")
    rep.run(RT.rule_binding, ctx, rep, "F1", min_actions=20)
    rep.run(RT.rule_marker_chain, ctx, rep, "F3")
    rep.require_min("F3", 8)
    rep.run(RT.rule_scope_symmetry, ctx, rep, "G4")
    rep.run(RT.rule_member_exhaustive, ctx, rep, "G5", min_kinds=7)
    rep.run(RT.rule_no_reorder, ctx, rep, "G6")
    rep.run(RT.rule_ordered_choice, ctx, rep, "G7")
    # G8: tree accessors never hand out, and tree code never modifies, shared mutable state
    rep.run(RA.rule_mutate_only_fresh, ctx, rep, "G8", "gtwrap/", G8_EXEMPT, min_sites=60)
    rep.run(RG.rule_word_boundary, ctx, rep, "G9")
    rep.run(RG.rule_quoted_literals_are_tokens, ctx, rep, "G12")
    rep.run(RT.rule_lists_kept_whole, ctx, rep, "G10")
    rep.run(RT.rule_ctor_params_stored, ctx, rep, "G11")
    rep.run(RT.rule_result_shapes, ctx, rep, "G13")
    rep.run(RT.rule_parallel_results_aligned, ctx, rep, "G14")
    rep.require_min("G7", 2)
    rep.run(RF.rule_parent_walk_truthiness, ctx, rep, "G15")
    # G16 / G17: small functions decided by evaluation on samples: members filed per kind in source order; namespace chain outermost first
    rep.run(RT.rule_members_in_source_order, ctx, rep, "G16")
    rep.run(RT.rule_namespace_chain_by_evaluation, ctx, rep, "G17")
    rep.run(RT.rule_ctor_stores_what_it_was_given, ctx, rep, "G18")
    rep.run(RT.rule_nodes_hold_what_was_written, ctx, rep, "G19")
    rep.run(RF.rule_locals_defined, ctx, rep, "U1", packages=("gtwrap/interface_parser",), min_functions=3)
