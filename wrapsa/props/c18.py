"""C18 - the MATLAB runtime header converts values without loss (Engine X: clang AST)."""
from .. import rules_header as RH
from .. import rules_header2 as RH2

ID = "C18"
EXPLANATION = (
    "matlab.h is type-checked by clang (-fsyntax-only) against declaration-only stubs of the MEX C API and "
    "of the five gtsam headers it includes, and the resolved AST (callees, cast kinds and target types, "
    "template arguments, for-nests) is analysed. K1: the wrap<T> and unwrap<T> specialisation tables are "
    "equal. K2: every scalar unwrap<T> calls checkScalar on its argument before reading and reads through "
    "myGetScalar<T> with the same T. K3: every raw store through a cast of mxGetData is typed as the value "
    "and fits the element size of the array it was created with (LP64 table). K4: vector/matrix readers "
    "reject non-double (and, for vectors, multi-column) input before taking the data pointer. K5: wrap_Matrix "
    "and unwrap<Matrix> traverse in the same column-major nest with the same (rows, cols) creation order; "
    "vector writers/readers agree. K6: error()/checkScalar()/checkArguments() end in the mexErrMsg* family. "
    "K7: what create_object stores in the handle array (a std::shared_ptr<Class>*) is what every reader "
    "reinterprets it as before dereferencing; unwrap_shared_ptr validates before the cast and returns a "
    "copy; create_object releases what it allocated. Object lifetime over call histories is a run-time fact and is not "
    "decided; numeric round trips are decided under a stated platform model (see K16).")
EXPLANATION += (
    " K15: unwrap<string> / wrap<string> run by the analyser's interpreter over the clang AST (local buffers whose bytes start "
    "uninitialised, mxGetString's cut at length-1 and its return code, mxArrayToString, std::string from a pointer) on character "
    "arrays of the lengths next to every integer constant the function mentions, on a column and a matrix of characters, and on "
    "non-character arrays, which must raise. K16: every scalar wrap<T> / unwrap<T> pair run on the boundary values of T in a "
    "byte-level model of the arrays (LP64, little-endian; a store through (X*)mxGetData writes sizeof(X) bytes into a "
    "zero-initialised array of the created class; mxGetScalar converts the first element to double; C++ arithmetic conversions): "
    "unwrap<T>(wrap<T>(v)) is v, nothing outside the array is touched, and a MATLAB scalar of any numeric or logical class "
    "arrives as its value (2^53+1 in an int64 array is not read through a double). K6 runs checkScalar on twelve shapes, N-d "
    "ones included.")
EXPLANATION += (
    " K8: every return of a wrap<T>/unwrap<T> specialisation hands back a value that depends (def-use closure over "
    "initialisers, assignments, element stores and memcpy-like calls in the clang AST) on the function's argument; a path "
    "returning a default-constructed or constant value (an 'empty input' short-cut that loses the shape) is reported.")
EXPLANATION += (
    " K9: every copying loop of the vector/matrix converters starts at 0, tests `<` and steps counter and data pointer by +1. "
    "K10: the error guards of each converter (possibly several ifs / else-ifs) are evaluated as a boolean function of the facts they "
    "test and compared with the required rejection condition on every row of the truth table. K11: arrays are created mxREAL, with "
    "the extents the single stores rely on and the class ids the readers test. K12: mexCallMATLAB receives one output, exactly the "
    "prepared inputs and the class name chosen on the same path; mxGetProperty/mxGetField read element 0; the RTTI name buffer is "
    "length+1; wrap_shared_ptr returns create_object's result on both paths. K13: the unspecialised wrap<T>/unwrap<T> raise.")
ASSUMPTIONS = [
    "clang 14 parser/Sema; the stubs under /verif/stubs declare the documented MEX C API signatures",
    "LP64 size table (the 32-bit arm of mxUINT32OR64_CLASS is analysed in the thorough tier when the "
    "toolchain can parse it)",
    "mxCreateNumeric* zero-initialises (documented), so a narrower typed store leaves defined upper bytes",
    "K16's byte model: LP64 type sizes, little-endian byte order, two's complement; conversions of out-of-range floating values "
    "to integers (undefined in C++) are not among the samples",
]


def run(ctx, rep):
    rep.run(RH.rule_tables_agree, ctx, rep, "K1")
    rep.run(RH.rule_scalar_read, ctx, rep, "K2")
    rep.run(RH.rule_scalar_write, ctx, rep, "K3")
    rep.run(RH.rule_guard_before_data, ctx, rep, "K4")
    rep.run(RH.rule_loop_shapes, ctx, rep, "K5")
    rep.require_min("K5", 10)
    rep.run(RH.rule_error_terminal, ctx, rep, "K6")
    rep.run(RH.rule_handle_protocol, ctx, rep, "K7")
    rep.run(RH.rule_returns_depend_on_argument, ctx, rep, "K8")
    rep.run(RH2.rule_loop_headers, ctx, rep, "K9")
    rep.run(RH2.rule_guard_truth_tables, ctx, rep, "K10")
    rep.run(RH2.rule_creation_calls, ctx, rep, "K11")
    rep.run(RH2.rule_matlab_calls, ctx, rep, "K12")
    rep.run(RH2.rule_primary_templates_raise, ctx, rep, "K13")
    rep.run(RH2.rule_wide_integers_read_exactly, ctx, rep, "K14")
    rep.run(RH.rule_strings_by_evaluation, ctx, rep, "K15")
    rep.run(RH.rule_scalars_by_evaluation, ctx, rep, "K16")
    rep.run(RH2.rule_no_use_after_destroy, ctx, rep, "K17")


def run_thorough(ctx, rep):
    """The 32-bit arm of mxUINT32OR64_CLASS (macro __LP64__ undefined)."""
    from ..clangx import HeaderAST
    h32 = HeaderAST(ctx.tree.root, extra=["-U__LP64__"])
    rep.run(RH.rule_scalar_write, ctx, rep, "K3", sizeof=RH.SIZEOF_ILP32, tag="ILP32", h=h32)
