"""C03 - the generated Python module exposes exactly the declared API (Engines F, E)."""
from .. import rules_flow as RF
from .. import rules_pybind as RP
from .. import rules_alias as RA

ID = "C03"
EXPLANATION = (
    "Static analysis of gtwrap/pybind_wrapper.py against the grammar and the instantiator. A1: every node kind "
    "that can appear in a namespace after instantiation (grammar alternatives not consumed by "
    "instantiate_namespace + the kinds it builds) has an isinstance branch in wrap_namespace (ForwardDeclaration "
    "exempt: binds nothing). A2: every member list of an instantiated class (the seven kinds the parser sorts "
    "members into) is bound to a slot of the class template (enums at the dispatch site). A3: wrap_namespace "
    "returns empty before any emission when the namespace path is not prefix-compatible with the top "
    "namespace; the prefix test has the normal form 'all positions below min(len) equal'; above the top "
    "namespace only includes and recursion contribute. Every recursive call is made per child namespace in content order (a re-opened namespace keeps all its blocks). A8: no in-place modification of anything but freshly created values inside the emitter - in particular its configuration lists (keyword list, ignore list) are never extended through an alias. A7: every slice/length comparison of a namespace path "
    "is relative to len(top_module_namespaces). A4: the def_submodule statement precedes the content loop, is "
    "emitted only strictly below the top namespace and once per module variable. A5: everything emitted for a "
    "class at the dispatch site is suppressed when the class is ignored. A6: the Python-visible name of every "
    "method/function binding passes the keyword-escape step on all paths and the keyword list contains "
    "keyword.kwlist. Exactly-once per declaration for every input and Python-side dir() need the output and "
    "are not decided.")
EXPLANATION += (
    " A6 also accepts the escape step inside a helper method that returns its argument with '_' appended iff it is in the keyword list, and requires that the keyword list is never modified after construction, also not through a local alias. A4 additionally requires that the declaration of a submodule variable is guarded by nothing but the depth test and the first-visit test.")
ASSUMPTIONS = ["keyword.kwlist of the analysing interpreter (CPython 3.12) is the reference list of reserved words",
               "pybind11's def_submodule returns the existing submodule when called again (so declaring the C++ "
               "variable once is sufficient)"]


def run(ctx, rep):
    rep.run(RP.rule_node_kinds, ctx, rep, "A1")
    rep.run(RP.rule_member_kinds, ctx, rep, "A2")
    rep.run(RP.rule_top_namespace_filter, ctx, rep, "A3")
    rep.run(RP.rule_all_children_visited, ctx, rep, "A3")
    rep.run(RP.rule_depth_relative, ctx, rep, "A7")
    rep.run(RP.rule_submodule_once, ctx, rep, "A4")
    rep.run(RP.rule_ignore_dominates, ctx, rep, "A5")
    rep.run(RP.rule_keyword_escaping, ctx, rep, "A6")
    rep.run(RP.rule_one_binding_per_member, ctx, rep, "A9")
    rep.run(RP.rule_dispatch_branches_contribute, ctx, rep, "A10")
    rep.run(RP.rule_operator_bindings_by_evaluation, ctx, rep, "A11")
    rep.run(RP.rule_class_block_by_evaluation, ctx, rep, "A12", part="members")
    rep.run(RP.rule_special_cased_members_keep_their_binding, ctx, rep, "A13")
    # A8: the emitter's configuration (keyword list, ignore list, ...) is never modified while wrapping
    rep.run(RA.rule_mutate_only_fresh, ctx, rep, "A8", "gtwrap/pybind_wrapper", {}, min_sites=3)
    rep.run(RF.rule_locals_defined, ctx, rep, "U1", packages=("gtwrap/pybind_wrapper.py",), min_functions=3)
