"""C08 - exactly the requested instantiations exist, in order, with stable names (Engine F)."""
from .. import rules_alias as RA
from .. import rules_flow as RF
from .c13 import P1_EXEMPT
from .. import rules_inst as RI
from .. import rules_tree as RT

ID = "C08"
EXPLANATION = (
    "Static analysis of gtwrap/template_instantiator. N1: every enumeration of instantiations is "
    "itertools.product(*<decl>.template.instantiations) over the parsed lists themselves and the product "
    "tuple reaches the instantiation unchanged (hence declaration order, first parameter slowest, an empty "
    "list yields nothing) - class, function and member level agree. N2: each typedef'd kind (class, function, "
    "forward declaration) is resolved from the module's top level by the typedef's typename and builds one "
    "instantiation with exactly the typedef's arguments and the typedef's name, and the three constructors "
    "honour that name. N3: every other declaration is appended once, unchanged, in iteration order; nested "
    "namespaces are recursed into in place; typedef instantiations are appended last; nothing is re-ordered. "
    "N4: all instantiation names come from the one naming helper applied to the template's own name and the "
    "instantiation list; C++ spellings are Name<args> built from the same two. N5: the naming helper "
    "upper-cases the first character only and concatenates suffixes in instantiation order. N6: neither the "
    "parser nor the instantiator keeps class-level / module-level / memoised state, so a typedef is resolved "
    "against the declarations of the module being instantiated and never against an earlier module's. N7: the "
    "instantiator modifies only objects it created itself (the one named exception is the documented replacement "
    "of namespace.content), so what passes through is unchanged, parent links included.")
ASSUMPTIONS = [
    "itertools.product enumerates in lexicographic order of its argument lists (documented)",
    "the parser keeps instantiation lists in source order (C01/G6)",
]


def run(ctx, rep):
    rep.run(RI.rule_product_sites, ctx, rep, "N1", min_sites=3)
    rep.run(RI.rule_typedef_path, ctx, rep, "N2", min_kinds=3)
    rep.run(RI.rule_pass_through, ctx, rep, "N3")
    rep.run(RI.rule_naming, ctx, rep, "N4", min_sites=5)
    rep.run(RI.rule_capitalise, ctx, rep, "N5")
    rep.run(RF.rule_no_shared_state, ctx, rep, "N6", packages=("gtwrap/interface_parser", "gtwrap/template_instantiator"))
    # "pass through unchanged ... in their original scope": nothing that existed before is modified in place
    rep.run(RA.rule_mutate_only_fresh, ctx, rep, "N7", "gtwrap/template_instantiator", P1_EXEMPT, min_sites=20)
    rep.run(RF.rule_namespace_path_lookup, ctx, rep, "N2")
    rep.run(RI.rule_instantiated_siblings, ctx, rep, "N9")
    rep.run(RT.rule_no_reorder, ctx, rep, "N8")
    rep.run(RT.rule_lists_kept_whole, ctx, rep, "N8")
    rep.run(RF.rule_parent_walk_truthiness, ctx, rep, "N9")
    rep.run(RI.rule_flat_name_of_nested_arguments, ctx, rep, "N10")
    rep.run(RI.rule_typedef_yields_one_instantiation, ctx, rep, "N11")
    # N12: the instantiation refers in C++ to Name<args> with every argument spelled in full (= C04 B14, by evaluation)
    rep.run(RI.rule_explicit_template_arguments_by_evaluation, ctx, rep, "N12")
    rep.run(RF.rule_locals_defined, ctx, rep, "U1", packages=("gtwrap/template_instantiator",), min_functions=3)
