"""C06 - MATLAB overload guards, default expansion and C++ marshalling line up (Engines E, I, F)."""
from .. import rules_flow as RF
from .. import rules_inst as RI
from .. import rules_ids as RID
from .. import rules_matlab as RM

ID = "C06"
EXPLANATION = (
    "Static analysis of gtwrap/matlab_wrapper/wrapper.py. M1: in the three per-argument loops the position index "
    "embedded in varargin{i} / in[i] advances exactly once per argument on every path of an iteration (path "
    "enumeration over if/continue) and the count test uses the length of the same list. M2: the two MATLAB-side "
    "type-check builders have the same normal form (type lookup chain and appended isa / shape tests) modulo the "
    "is_constructor flag, which is irrelevant because keys(data_type) is a subset of keys(data_type_param) - "
    "checked. M3: per role, the start index of the C++ unwrap loop, the nargin adjustment of checkArguments, "
    "whether the receiver is unwrapped from in[0] and whether the .m call passes `this` are mutually consistent, "
    "and the expected count is the length of the unwrapped list. M4: default expansion saves the full list once "
    "before any removal, peels from the tail one arity per recursion and stops at the first non-defaulted "
    "argument; the call's parameters are rebuilt from the saved list inserting the default text exactly for "
    "omitted parameters. M5: every arity allocates its own id (C05/I3). M6: void / single / pair return dispatch "
    "is exhaustive with first->out[0], second->out[1]. M7: the local-type/unwrap-function table and the call "
    "expression are driven by the same predicates in the same priority, and every role that unwraps arguments "
    "supplies the enum-resolution context. Not decided: 'k+1 arities for all k' as an arithmetic fact about the "
    "list surgery, MATLAB isa semantics.")
ASSUMPTIONS = ["the shape of _expand_default_arguments is recognised structurally; a rewrite makes M4 report it as not recognised"]


def run(ctx, rep):
    rep.run(RM.rule_index_alignment, ctx, rep, "M1")
    rep.run(RM.rule_sibling_guards, ctx, rep, "M2")
    rep.run(RM.rule_receiver_offset, ctx, rep, "M3")
    rep.run(RM.rule_defaults, ctx, rep, "M4")
    rep.run(RM.rule_call_arguments_per_parameter, ctx, rep, "M4")
    rep.run(RM.rule_one_id_per_arity, ctx, rep, "M5")
    rep.run(RM.rule_group_by_name, ctx, rep, "M5")
    rep.run(RM.rule_return_shapes, ctx, rep, "M6")
    rep.run(RM.rule_marshalling_table, ctx, rep, "M7")
    rep.run(RF.rule_memo_key_complete, ctx, rep, "M8", packages=("gtwrap/matlab_wrapper",), min_functions=50)
    rep.run(RM.rule_overload_data_from_overload, ctx, rep, "M9")
    rep.run(RM.rule_callee_spelling, ctx, rep, "M10")
    rep.run(RM.rule_copy_exactly_for_values, ctx, rep, "M11")
    rep.run(RM.rule_pair_element_by_position, ctx, rep, "M12")
    rep.run(RM.rule_enum_lookup_covers_scope, ctx, rep, "M13")
    # M15: the defaults the arities are expanded from survive instantiation: every rebuilt Argument keeps name and default (= C04 B11, C02 S5)
    rep.run(RI.rule_name_default_forwarding, ctx, rep, "M15")
    rep.run(RM.rule_guard_builders_by_evaluation, ctx, rep, "M16")
    # M17 / M18: the .m branches and the C++ routines of sample declarations line up (ids, counts, positions, defaults) (= C05 I10, I11)
    rep.run(RID.rule_call_sites_by_evaluation, ctx, rep, "M17")
    rep.run(RID.rule_routines_by_evaluation, ctx, rep, "M18")
    rep.run(RID.rule_property_accessors_by_evaluation, ctx, rep, "M19", parts=("routines",))
    rep.run(RID.rule_returned_enum_by_evaluation, ctx, rep, "M20")
    rep.run(RID.rule_call_sites_by_evaluation, ctx, rep, "M21", returns=True)
    rep.run(RID.rule_call_sites_by_evaluation, ctx, rep, "M22", guards=True)
    rep.run(RF.rule_locals_defined, ctx, rep, "U1", packages=("gtwrap/matlab_wrapper",), min_functions=3)
