"""C10 - the MATLAB toolbox contains exactly the declared classes, functions, enums (Engines E, F)."""
from .. import rules_flow as RF
from .. import rules_matlab as RM
from .. import rules_pybind as RP
from .. import rules_ids as RI

ID = "C10"
EXPLANATION = (
    "Static analysis of gtwrap/matlab_wrapper/wrapper.py. T1: in generate_preamble the collector declaration and "
    "the clean-up fragment are appended under identical (empty) guards for every non-ignored class and are named "
    "after the same class; the RTTI line is appended iff the class is virtual; every instantiated class is "
    "registered (add_class) unconditionally at every namespace depth. T2: enumerators are numbered by "
    "enumerate() from 0 over the declared list. T3: class files, namespace enums, global functions and "
    "class-scoped enums derive their +pkg/+pkg folder from the namespace list by the same normal form (class-"
    "scoped enums: that path plus +<Class>). T4: pointer property, constructor, delete, display and the static "
    "block are appended unconditionally, methods/property accessors iff the class has any, and the classdef "
    "names the declared base or handle. T5: the MEX source entry is added by the top-level call only and is the "
    "file generate_wrapper fills. T6: overloads are grouped by name across the whole list (one function file / "
    "one method per distinct name even when overloads are not adjacent). T7: scalar state the wrapper keeps on "
    "self while it works through classes (e.g. 'this class has serialize()') is assigned on every path before "
    "it is read, so no class inherits members from the class wrapped before it. That each file's *content* is right is C05/C06/C11.")
ASSUMPTIONS = ["generate_content materialises (folder, [(file, text)]) entries as nested +package folders (read, not re-proved)"]


def run(ctx, rep):
    rep.run(RM.rule_preamble_pairing, ctx, rep, "T1")
    rep.run(RM.rule_enum_numbering, ctx, rep, "T2")
    rep.run(RM.rule_package_paths, ctx, rep, "T3", min_sites=4)
    rep.run(RM.rule_classdef_complete, ctx, rep, "T4")
    rep.run(RM.rule_one_mex_source, ctx, rep, "T5")
    rep.run(RM.rule_group_by_name, ctx, rep, "T6")
    rep.run(RF.rule_item_state_defined_before_use, ctx, rep, "T7", packages=("gtwrap/matlab_wrapper",), min_classes=3)
    rep.run(RF.rule_memo_key_complete, ctx, rep, "T8", packages=("gtwrap/matlab_wrapper",), min_functions=50)
    rep.run(RM.rule_one_scope_for_class_names, ctx, rep, "T9")
    # T10: every placeholder of every template the MATLAB generator fills has a value at that call (KeyError otherwise,
    # on the first input that reaches the template - the fixtures do not reach all of them)
    rep.run(RP.rule_slot_completeness, ctx, rep, "T10", cls="MatlabWrapper", min_sites=60, unused_ok=True)
    # T11: the routine behind `get.p` is the getter and the one behind `set.p` the setter, whatever the names contain (= C05 I6)
    rep.run(RI.rule_roles, ctx, rep, "T11")
    # T12: classdef, collector, clean-up and RTTI entry exist for the same set of classes: one ignore key at every site (= C15 X1)
    rep.run(RM.rule_one_ignore_key, ctx, rep, "T12")
    rep.run(RM.rule_base_class_spelling, ctx, rep, "T13")
    rep.run(RM.rule_every_element_kind_is_wrapped_on_every_path, ctx, rep, "T14")
    # T15: the name tables of the generator are collections (a one-element tuple without its comma is a string: `in` turns into a substring test)
    rep.run(RM.rule_membership_tables_are_collections, ctx, rep, "T15")
    # T16: every group of free-function overloads reaches its file (no name filter in front of the append)
    rep.run(RM.rule_every_function_group_gets_its_file, ctx, rep, "T16")
    rep.run(RM.rule_serialize_pair_complete, ctx, rep, "T17")
    rep.run(RM.rule_containers_registered_before_they_are_judged, ctx, rep, "T18")
    rep.run(RI.rule_class_file_named_after_the_class, ctx, rep, "T19")
    rep.run(RI.rule_preamble_by_evaluation, ctx, rep, "T20")
    rep.run(RI.rule_registry_keeps_every_class, ctx, rep, "T21")
    rep.run(RI.rule_one_file_per_function_across_blocks, ctx, rep, "T22")
    rep.run(RF.rule_locals_defined, ctx, rep, "U1", packages=("gtwrap/matlab_wrapper",), min_functions=3)
