"""C04 - every Python binding forwards to the declared C++ entity, faithfully (Engine E)."""
from .. import rules_flow as RF
from .. import rules_pybind as RP
from .. import rules_alias as RA
from .. import rules_inst as RI
from .c13 import P1_EXEMPT

ID = "C04"
EXPLANATION = (
    "Static analysis of the text templates of gtwrap/pybind_wrapper.py after constant folding (str.format, "
    "f-strings, concatenation) with the expression bound to each slot. Decides the *shape* of every generated "
    "lambda / registration for all inputs. B1: in each emitter the lambda's parameter list, the call's "
    "argument list and the py::arg list are projections of one argument list, never sliced, filtered or "
    "re-ordered, through helpers that emit one element per argument in order. B2: name and default of one "
    "py::arg entry come from the same argument and the default is emitted iff there is one. Default-value text is never passed through a string method before it is emitted. B3: for methods "
    "vs static methods the three choices def/def_static, self->/Class:: and presence of the self parameter "
    "are evaluated abstractly on both kinds and must agree. B4: `return` is emitted iff the return type is "
    "not void (is_void = first type void and no second type). B5: def_readonly iff the property type is "
    "const. B6: enumerators, base class, callee spelling (to_cpp) and namespace qualification are bound from "
    "the same entity. B7: unary operators emit one py::self operand, binary two; []/() bind "
    "__getitem__/__call__. B8: the types a binding spells are produced by the substitution primitives on private copies (C02/S1, C13/P1 re-run), so one instantiation's binding cannot carry another's types. That the *compiled* binding calls the intended overload, that defaults evaluate "
    "as intended, and operator semantics are behaviour of the emitted program and are not decided.")
ASSUMPTIONS = ["str.format / f-string semantics on constant templates", "pybind11 itself is trusted"]


def run(ctx, rep):
    rep.run(RP.rule_free_function_binding_is_name_independent, ctx, rep, "B12")
    rep.run(RP.rule_class_block_by_evaluation, ctx, rep, "B13", part="forwarding")
    rep.run(RI.rule_explicit_template_arguments_by_evaluation, ctx, rep, "B14")
    # B15: argument / return types reach the bindings instantiated - templated types with their parameter types included (= C02 S14)
    rep.run(RI.rule_instantiate_type_by_evaluation, ctx, rep, "B15", part="substitution")
    rep.run(RI.rule_declared_base_kept, ctx, rep, "B16")
    rep.run(RP.rule_one_argument_list, ctx, rep, "B1", min_emitters=4)
    rep.run(RP.rule_default_on_own_parameter, ctx, rep, "B2")
    rep.run(RP.rule_default_text_verbatim, ctx, rep, "B2")
    rep.run(RP.rule_receiver_consistency, ctx, rep, "B3")
    rep.run(RP.rule_return_polarity, ctx, rep, "B4")
    rep.run(RP.rule_property_polarity, ctx, rep, "B5")
    rep.run(RP.rule_same_entity, ctx, rep, "B6")
    rep.run(RP.rule_operator_shape, ctx, rep, "B7")
    # B8: the declared types a binding spells are those of *its* instantiation: exact substitution (C02/S1)
    # applied to private copies (C13/P1)
    rep.run(RI.rule_coverage, ctx, rep, "B8", min_sites=10)
    rep.run(RI.rule_template_argument_identity, ctx, rep, "B8")
    rep.run(RA.rule_mutate_only_fresh, ctx, rep, "B8", "gtwrap/template_instantiator",
            P1_EXEMPT, min_sites=20)
    # B9: the declared types survive substitution - parameter names are whole-identifier keys, replacement text is not re-scanned
    rep.run(RI.rule_typenames_are_keys, ctx, rep, "B9")
    rep.run(RI.rule_simultaneous_substitution, ctx, rep, "B9")
    rep.run(RI.rule_substitution_input_is_the_declaration, ctx, rep, "B9")
    # B10: the passing mode a binding declares (const, shared / raw pointer, reference) is the declared one: every rebuilt Type forwards
    # each qualifier of the original to the parameter of the same name (= C02/S4)
    rep.run(RI.rule_qualifier_forwarding, ctx, rep, "B10", min_sites=3)
    # B11: keyword names and default-value text of an instantiated declaration are the declared ones: every rebuilt Argument forwards
    # name and default unchanged, and nothing rewrites a spelling at substring level (= C02/S5, S3)
    rep.run(RI.rule_name_default_forwarding, ctx, rep, "B11")
    rep.run(RI.rule_whole_identifier, ctx, rep, "B11", exclude={"instantiate_name"})
    rep.run(RF.rule_locals_defined, ctx, rep, "U1", packages=("gtwrap/pybind_wrapper.py",), min_functions=3)
