"""C17 - embedded docstrings are the right text, correctly escaped, change nothing else (Engines E, F)."""
from .. import rules_flow as RF
from .. import rules_xml as RX
from .. import rules_pybind as RP

ID = "C17"
EXPLANATION = (
    "Static analysis of gtwrap/xml_parser/xml_parser.py and of its single use in the pybind emitter. Q1: "
    "xml_source/xml_parser are read in one emitter only, inside the expression bound to one slot that is '' when "
    "no XML source is configured, placed as last argument of .def(...); the literal is built as quote + "
    "repr(text)[1:-1] with double quotes escaped + quote, from extract_docstring(xml_source, class, C++ method "
    "name, argument names) of the very binding. Q2 (contradiction rule): the Optional results of Element.find and "
    "element.text and attrib[...] lookups are not dereferenced unless a dominating test excludes None/absence "
    "(the module itself tests some of them, so the untested ones are the contradictions). Presence of an optional element is tested with `is (not) None`, never by the Element's truth value (an Element without children is falsy). Q3: unreadable or "
    "malformed XML is turned into None by handlers covering OSError and ParseError, and every caller tests it. Q4: "
    "the overload counter taken from the memory is used as an index only under a bound. Q5: the index query "
    "interpolates the class, the member query the method; candidates are filtered by arity and by name at the "
    "same index before being kept; the memory key is (class, method, names). That the literal decodes to exactly "
    "the text for all Unicode depends on repr's escape alphabet versus C++'s (a value-level fact) and is not "
    "decided.")
ASSUMPTIONS = ["xml.etree.ElementTree: Element.find returns None when nothing matches; Element.text may be None",
               "Doxygen XML attributes/elements named in the rules are optional (partial XML is an admitted input)"]


def run(ctx, rep):
    rep.run(RP.rule_templates_are_constant, ctx, rep, "Q10")
    rep.run(RX.rule_confinement, ctx, rep, "Q1")
    rep.run(RX.rule_optional_results, ctx, rep, "Q2", min_sites=8)
    rep.run(RX.rule_element_truthiness, ctx, rep, "Q2")
    rep.run(RX.rule_unreadable_xml, ctx, rep, "Q3")
    rep.run(RX.rule_overload_counter, ctx, rep, "Q4")
    rep.run(RX.rule_empty_docstring_exactly_when_nothing_to_document, ctx, rep, "Q4")
    rep.run(RX.rule_lookup_provenance, ctx, rep, "Q5")
    rep.run(RX.rule_filter_polarities, ctx, rep, "Q5")
    rep.run(RX.rule_names_confirmed, ctx, rep, "Q5")
    rep.run(RX.rule_member_filter_by_evaluation, ctx, rep, "Q11")
    rep.run(RX.rule_docstring_literal_roundtrip, ctx, rep, "Q12")
    rep.run(RX.rule_extracted_elements_used, ctx, rep, "Q7")
    rep.run(RX.rule_counter_key_identity, ctx, rep, "Q8")
    rep.run(RF.rule_no_shared_state, ctx, rep, "Q9", packages=("gtwrap/xml_parser",))
    rep.run(RX.rule_docstring_untouched, ctx, rep, "Q6")
    rep.run(RF.rule_locals_defined, ctx, rep, "U1", packages=("gtwrap/xml_parser", "gtwrap/pybind_wrapper.py"), min_functions=3)
