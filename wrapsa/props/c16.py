"""C16 - multiple interface files and the command-line scripts compose consistently (Engines F, E)."""
from .. import rules_flow as RF
from .. import rules_matlab as RM
from .. import rules_cli as RC
from .. import rules_alias as RA

ID = "C16"
EXPLANATION = (
    "Static analysis. Y1: MatlabWrapper.wrap builds the text it parses from the files' contents with a line break "
    "between consecutive files (otherwise a file ending in a `//` comment or mid-token fuses with the next). Y2: "
    "the pybind main file and a submodule derive the initialiser's name from the source path by the same "
    "expression (Path(..).stem); the folded templates for the initialiser's declaration, definition and call "
    "agree on the signature `void <name>(py::module_ &<var>)`, and <var> is the module variable of "
    "PYBIND11_MODULE and the prefix _gen_module_var uses; one initialiser per additional file, in order. Y3: every "
    "option declared with add_argument is read and reaches the constructor keyword / method argument of the "
    "public API it corresponds to (table keyed by CLI flag and API keyword); an option that may be None does not "
    "reach a membership test. Y4: both scripts normalise --top_module_namespaces by the same statements. "
    "Y7: wrap_submodule and wrap write what wrap_file returned on every path to a normal exit (must-pass-through over the "
    "statement structure), to the file named after the initialiser - the main file declares and calls every initialiser "
    "unconditionally, so a part that is skipped leaves an undefined reference. "
    "Y8: the command lines in cmake/PybindWrap.cmake and cmake/MatlabWrap.cmake pass only options the scripts declare, with a "
    "value exactly where the script expects one, and every required option; the file names the build expects (NAME_WLE + .cpp, "
    "<module>_wrapper.cpp in the --out directory) are the names the library writes. "
    "Linking and importing the combined module is not decided.")
ASSUMPTIONS = ["argparse semantics: nargs='*' without default yields None when the option is absent",
               "CMake semantics: NAME_WLE is the file name without its last extension (= pathlib's stem)"]


def run(ctx, rep):
    rep.run(RM.rule_file_separator, ctx, rep, "Y1")
    rep.run(RC.rule_submodule_contract, ctx, rep, "Y2")
    rep.run(RC.rule_option_plumbing, ctx, rep, "Y3")
    rep.run(RC.rule_source_list_unfiltered, ctx, rep, "Y3")
    rep.run(RC.rule_sibling_scripts, ctx, rep, "Y4")
    rep.run(RC.rule_namespace_normal_form, ctx, rep, "Y6")
    rep.run(RC.rule_every_part_is_written, ctx, rep, "Y7")
    rep.run(RC.rule_build_files_agree, ctx, rep, "Y8")
    rep.run(RF.rule_configuration_is_fixed, ctx, rep, "Y9")
    # Y5: the entry points leave the lists they are given (sources, ignore list, namespaces) as they were
    rep.run(RA.rule_mutate_only_fresh, ctx, rep, "Y5", "gtwrap/pybind_wrapper", {}, min_sites=3)
    rep.run(RF.rule_locals_defined, ctx, rep, "U1", packages=("scripts/", "gtwrap/pybind_wrapper.py", "gtwrap/matlab_wrapper"), min_functions=3)
