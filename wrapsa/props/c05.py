"""C05 - MATLAB call-site ids and the MEX dispatch table always agree (Engine I)."""
from .. import rules_flow as RF
from .. import rules_ids as RI
from .. import rules_matlab as RM

ID = "C05"
EXPLANATION = (
    "The numbering protocol is decided by an inductive argument whose premises are checked on the source. I1: the "
    "counter and the id->routine map are written only by __init__ and _update_wrapper_id. I2: the allocator "
    "increments once on every path, returns the pre-increment value and registers map[pre] iff a role tuple was "
    "passed, naming the routine with id+id_diff. I3: each of the allocation sites embeds the returned id in "
    "exactly one placeholder, which is the first argument of the gateway call of a .m template, under the same "
    "guards as the allocation. I4: role-carrying sites embed the id unshifted; the only other accepted shape is "
    "the virtual pair (an unnamed id embedding ret+1, followed by a named one with id_diff=-1 embedding one lower "
    "under the same flag). I5: the two replay loops (generate_wrapper, mex_function) are abstractly executed - "
    "symbolic map entries, concrete small id windows covering an ordinary id, a virtual pair first / last / "
    "repeated - and must produce one case per id, routed to the routine of the same map entry (or the pair's "
    "up-cast), with every called routine defined exactly once and the up-cast name agreeing with its template. "
    "I6: every registered role has a branch, and roles are not recovered from fields that carry user "
    "identifiers. From I1-I5: ids are 0..n-1 without gaps or repeats, each call site's id has exactly one case "
    "which calls the routine generated from the same entry. That the routine's *body* is right is C06/C11.")
EXPLANATION += (
    ' I7: generate_content writes every entry on every path (a helper that may return without writing - e.g. when a file of the same size exists - is not a write): ids of .m files and case labels come from the same run.'
    ' I1 (as built): the counter and the dispatch map are written by the allocator only, apart from joint unconditional resets (counter := 0 together with map := {}), one of which the constructor performs. I6 additionally requires the accessor prefix tested by generate_collector_function to be spelt from the same tuple slots as the routine name registered by wrap_class_properties.')
ASSUMPTIONS = [
    "the abstract execution models exactly the statement forms the two loops use (assign, if, continue, "
    "+= of formatted text, map.get); anything else is an ANALYSIS-ERROR",
]


def run(ctx, rep):
    rep.run(RI.rule_single_writer, ctx, rep, "I1")
    rep.run(RI.rule_allocator, ctx, rep, "I2")
    rep.run(RI.rule_sites, ctx, rep, "I3", min_sites=11)
    rep.run(RI.rule_offsets, ctx, rep, "I4")
    rep.run(RI.rule_replay_loops, ctx, rep, "I5")
    rep.run(RI.rule_roles, ctx, rep, "I6")
    # I3 (consumer side): all overloads of a name share one .m file, so no id loses its call site by overwriting
    rep.run(RM.rule_group_by_name, ctx, rep, "I3")
    # I7: call sites and dispatch table come from one run: every file is written whatever the output folder already holds
    rep.run(RI.rule_one_run_writes_every_file, ctx, rep, "I7")
    rep.run(RI.rule_entry_describes_its_own_overload, ctx, rep, "I8")
    rep.run(RI.rule_pointer_constructor_by_evaluation, ctx, rep, "I9")
    rep.run(RI.rule_call_sites_by_evaluation, ctx, rep, "I10")
    rep.run(RI.rule_routines_by_evaluation, ctx, rep, "I11", conversions=False)
    rep.run(RI.rule_property_accessors_by_evaluation, ctx, rep, "I12", parts=("sites",))
    rep.run(RI.rule_class_file_named_after_the_class, ctx, rep, "I13")
    rep.run(RI.rule_dispatch_table_by_evaluation, ctx, rep, "I14")
    rep.run(RI.rule_one_file_per_function_across_blocks, ctx, rep, "I15")
    rep.run(RF.rule_locals_defined, ctx, rep, "U1", packages=("gtwrap/matlab_wrapper",), min_functions=3)
