"""C07 - input is fully understood or loudly rejected, never half-used (Engines G, F)."""
from .. import rules_grammar as RG
from .. import rules_tree as RT
from .. import rules_flow as RF

ID = "C07"
EXPLANATION = (
    "Static analysis. V1: every derivation of the parse root ends in StringEnd and every parse call "
    "goes through Module.parseString or an equally anchored element. V2: every information point of "
    "every parse action's capture scope reaches the node object (= C01/G1,G2), so an accepted token is "
    "in the tree. V3: no left recursion, no repetition over a nullable expression (termination of the "
    "parser). V4: on the call graph from the public entry points no try/except that can see a parse or "
    "validation error catches it without re-raising. V5: in every entry point (two generators, "
    "wrap_submodule, both scripts) every statement that can reject (parse call, raise, assert, "
    "transitively through the call graph) precedes, on all paths, the first statement that writes "
    "(open for writing, mkdir/makedirs, ...); a loop containing both is accepted only with a proof "
    "that it runs at most once. V6: the validation sites named by the property still reject. Whether "
    "every corrupted input is outside the language is a language question and is not decided; "
    "`python -O` disabling assert-based validations is noted, not claimed.")
EXPLANATION += (
    " V6 also covers Namespace.find_class_or_function: candidates are selected by the typename's qualifiers and name, both rejections exist, and every return has passed them (or answers from a table stored after them under a key that covers the qualifiers). V7: every free-text token class of the grammar (CharsNotIn, QuotedString, Word) is bounded by its line or cannot match structural characters, nested expressions are bounded by bracket balance, and no SkipTo/Regex/restOfLine scans declaration text - otherwise deleting a closing delimiter yields an accepted file with swallowed declarations.")
ASSUMPTIONS = [
    "rejections are raised as pyparsing ParseBaseException, ValueError or AssertionError (the repo's idioms)",
    "callee resolution: self./Class./module-qualified calls exactly; unknown receivers by method name (over-approximation)",
    "assert statements are active (no python -O)",
]


def run(ctx, rep):
    rep.run(RG.rule_end_anchor, ctx, rep, "V1")
    rep.run(RG.rule_single_entry, ctx, rep, "V1", min_sites=3)
    rep.run(RT.rule_capture_complete, ctx, rep, "V2", min_actions=20)
    rep.run(RT.rule_no_phantom_read, ctx, rep, "V2")
    rep.run(RG.rule_termination, ctx, rep, "V3")
    rep.run(RF.rule_not_swallowed, ctx, rep, "V4", min_try=3)
    rep.run(RF.rule_typedef_target_kinds, ctx, rep, "V8")
    rep.run(RF.rule_no_write_before_reject, ctx, rep, "V5", min_entries=5)
    rep.run(RF.rule_validations_present, ctx, rep, "V6")
    rep.run(RF.rule_arity_validated, ctx, rep, "V6")
    rep.run(RF.rule_lookup_validated, ctx, rep, "V6")
    rep.run(RF.rule_namespace_path_lookup, ctx, rep, "V6")
    rep.run(RG.rule_free_text_bounded, ctx, rep, "V7")
    rep.require_min("V6", 4)
    rep.run(RF.rule_name_dispatch_rejects_unknown, ctx, rep, "V9")
    # V10: text the grammar accepts reaches the tree: a constructor handed the values of a repetition keeps all of them (= C01 G13)
    rep.run(RT.rule_result_shapes, ctx, rep, "V10")
    # V11: a failing run terminates: no `while` loop can iterate without changing what its condition reads
    rep.run(RF.rule_while_loops_make_progress, ctx, rep, "V11")
    rep.run(RF.rule_locals_defined, ctx, rep, "U1", packages=("gtwrap/interface_parser", "scripts/"), min_functions=3)
