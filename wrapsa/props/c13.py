"""C13 - instantiations are independent of each other and of parameter spelling (Engine F)."""
from .. import rules_alias as RA
from .. import rules_inst as RI
from .. import rules_pybind as RP
from .. import rules_flow as RF
from .. import rules_grammar as RG
from .. import rules_xml as RX

ID = "C13"
EXPLANATION = (
    "Aliasing and flow analysis of gtwrap/template_instantiator (and the parser objects it shares). P1: every "
    "in-place modification in the instantiator is applied to a value created on the spot (deepcopy, "
    "constructor, literal, slice, or a callee all of whose returns are such), followed through locals with "
    "reaching definitions, accumulator parameters (every caller must own what it passes) and nested helper "
    "functions - so one instantiation can never modify an object another instantiation (or the original "
    "template) also holds. P2: the member lists InstantiatedClass hands to parser.Class.__init__ (which "
    "re-parents their elements) are built from instantiated nodes, never the original's own lists (= C02/S1 "
    "for those parameters). P3: template parameter names are used as lookup keys only (equality, "
    "membership, index) and never reach generated text; no identifier other than the reserved `This` is "
    "special-cased by literal comparison. P4: no class-level or module-level container of the parser or the "
    "instantiator is mutated at run time, so repeating instantiation on fresh parses starts from the same "
    "state.")
EXPLANATION += (
    " P5: no word-like terminal of the grammar is a plain Literal in front of an identifier position, so no spelling of a template "
    "parameter (class_type, typenameT ...) is split by the parser (rule shared with C01 G9). P6: per-request state outside the "
    "instantiator that the generated text depends on - the docstring extractor's overload counter - is keyed by the requesting class's full "
    "C++ name as received, so the bindings of one instantiation do not advance the counter of another (rule shared with C17 Q8).")
ASSUMPTIONS = [
    "copy.deepcopy creates an independent object graph (the repo patches ParseResults.__getattr__ so that "
    "deepcopy works; modelled as a plain deep copy)",
    "named exemption (one store): instantiate_namespace replaces namespace.content (documented in/out parameter)",
]

P1_EXEMPT = {
    "instantiate_namespace:namespace.content": "documented in/out parameter: the namespace's content is replaced by its "
                             "instantiated content",
}


def run(ctx, rep):
    rep.run(RA.rule_mutate_only_fresh, ctx, rep, "P1", "gtwrap/template_instantiator", P1_EXEMPT, min_sites=20)
    rep.run(RI.rule_coverage, ctx, rep, "P2", min_sites=10)
    rep.run(RI.rule_typenames_are_keys, ctx, rep, "P3")
    rep.run(RF.rule_no_shared_state, ctx, rep, "P4", packages=("gtwrap/interface_parser", "gtwrap/template_instantiator"))
    rep.run(RG.rule_word_boundary, ctx, rep, "P5")
    rep.run(RX.rule_counter_key_identity, ctx, rep, "P6")
    rep.run(RI.rule_positions_of_the_list_itself, ctx, rep, "P7")
    # P8: a parameter named like the reserved word (`ThisType`) is still a parameter: reserved-word handling comes after the parameter tests (= C02/S6)
    rep.run(RI.rule_this, ctx, rep, "P8")
    rep.run(RI.rule_instantiation_depends_on_itself_only, ctx, rep, "P9")
    # P10: the pybind block of one instantiation does not depend on the instantiations wrapped before it
    rep.run(RP.rule_class_block_independent_of_earlier_classes, ctx, rep, "P10")
    rep.run(RI.rule_instantiate_type_by_evaluation, ctx, rep, "P11", part="purity")
    # P12: the sequence of instantiations does not depend on how the parameters are spelled (= C08 N11, by evaluation)
    rep.run(RI.rule_typedef_yields_one_instantiation, ctx, rep, "P12")
    rep.run(RI.rule_listed_types_taken_entry_by_entry, ctx, rep, "P14")
    # P13: a parameter is replaced as a whole identifier, never as a piece of text inside other identifiers (= C02 S3)
    rep.run(RI.rule_whole_identifier, ctx, rep, "P13", exclude={"instantiate_name"})
    rep.run(RF.rule_locals_defined, ctx, rep, "U1", packages=("gtwrap/template_instantiator",), min_functions=3)
