"""Effect / ordering rules (C07 V4-V6, C14 R1-R6)."""
from __future__ import annotations

import ast
from typing import Dict, List, Optional, Set, Tuple

from .pathflow import uses_only_name_files
from .core import AnalysisError, Report
from .effects import Effects, FuncId, FS_READ, FS_WRITE, MAY_REJECT, NONDET
from .prog import (ClassInfo, attr_def, order_free_use, ModuleInfo, Program, dotted, enclosing, func_params, guards_of, inline_locals,
                   local_assignments, parent, stmt_of, unparse, walk_no_nested)

SWALLOWING = {"Exception", "BaseException", "ParseBaseException", "ParseException",
              "ParseSyntaxException", "ParseFatalException", "ValueError", "AssertionError"}


def entry_points(ctx) -> List[Tuple[str, ModuleInfo, Optional[ClassInfo], ast.AST, List[ast.stmt]]]:
    """(label, module, class, function-or-module node, body statements) of the four public entry
    points plus the two scripts."""
    prog = ctx.prog
    out = []
    for cls, name in (("PybindWrapper", "wrap"), ("PybindWrapper", "wrap_submodule"),
                      ("MatlabWrapper", "wrap")):
        ci = prog.cls(cls)
        m = prog.find_method(ci, name)
        if m is None:
            raise AnalysisError(f"entry point vanished: {cls}.{name}")
        out.append((f"{cls}.{name}", m[0].mod, m[0], m[1], m[1].body))
    for rel in ("scripts/pybind_wrap.py", "scripts/matlab_wrap.py"):
        mi = prog.module(rel)
        found = False
        if "main" in mi.functions:
            out.append((f"{rel}:main", mi, None, mi.functions["main"], mi.functions["main"].body))
            found = True
        for st in mi.tree.body:
            if isinstance(st, ast.If) and "__name__" in unparse(st.test):
                # a guard block that only calls main() is covered by main itself
                only_main = all(isinstance(s, ast.Expr) and isinstance(s.value, ast.Call)
                                and unparse(s.value.func) == "main" for s in st.body)
                if not only_main:
                    out.append((f"{rel}:__main__", mi, None, mi.tree, st.body))
                found = True
        if not found:
            raise AnalysisError(f"{rel}: no entry code found")
    return out


def effects_engine(ctx) -> Effects:
    return ctx._get("effects", lambda: Effects(ctx.prog))


def entry_fids(ctx) -> List[FuncId]:
    eff = effects_engine(ctx)
    fids = []
    for label, mi, ci, fn, body in entry_points(ctx):
        if isinstance(fn, ast.Module):
            # module-level script code: its callees
            for st in body:
                for n in ast.walk(st):
                    if isinstance(n, ast.Call):
                        fids += [c for c in eff.resolve_call(n, mi, None, None) if c in eff.funcs]
        else:
            fids.append(eff.fid_of(ci, mi, fn))
    return fids


# ------------------------------------------------------------------------------------------
def rule_not_swallowed(ctx, rep: Report, rid="V4", min_try=3):
    eff = effects_engine(ctx)
    reach = eff.reachable(entry_fids(ctx))
    # also the interface_parser/instantiator code executed by parse actions
    for fid in list(eff.funcs):
        if fid.rel.startswith("gtwrap/interface_parser") or fid.rel.startswith("gtwrap/template_instantiator"):
            reach.add(fid)
    n = 0
    scan = [(fid, eff.funcs[fid]) for fid in sorted(reach, key=repr)]
    for label, mi, ci, fn, body in entry_points(ctx):
        if isinstance(fn, ast.Module):
            scan.append((FuncId(mi.rel, "__main__"), (mi, ast.Module(body=body, type_ignores=[]), None)))
    for fid, (mi, fn, ci) in scan:
        for t in ast.walk(fn):
            if not isinstance(t, ast.Try):
                continue
            n += 1
            body_eff: Set[str] = set()
            for st in t.body:
                body_eff |= eff.stmt_effects(st, mi, ci, fn)
            for h in t.handlers:
                names = _handler_types(h)
                broad = h.type is None or bool(names & SWALLOWING)
                reraises = any(isinstance(x, ast.Raise) for st in h.body for x in ast.walk(st)) or _handler_fails_the_run(h, fn, mi)
                key = f"try:{fid.qual}:except {','.join(sorted(names)) or 'bare'}"
                if not broad:
                    rep.add(rid, key, True, "handler catches only types no rejection is raised as",
                            f"{mi.rel}:{h.lineno}", nontrivial=False)
                    continue
                ok = reraises or MAY_REJECT not in body_eff
                rep.add(rid, key, ok,
                        "a parse or validation error raised inside this try body is caught and not "
                        "re-raised: a rejected input would be treated as accepted", f"{mi.rel}:{h.lineno}")
    rep.units["try_statements_examined"] = n
    # the rule quantifies over whatever try statements exist (removing one is not an error); what must not vanish
    # is the set of functions that was looked at
    if len(scan) < 100:
        raise AnalysisError(f"{rep.prop}/{rid}: only {len(scan)} functions scanned for try statements")
    rep.add(rid, "try statements examined", True, f"{n} in {len(scan)} functions", "", nontrivial=False)


def _handler_fails_the_run(h: ast.ExceptHandler, fn, mi) -> bool:
    """The handler reports the error and ends the run as a failure instead of re-raising: its last statement is
    `sys.exit(<non-zero>)`, or `return <non-zero>` in a function whose result is the process's exit status - every call of the
    function in its module is the argument of `sys.exit(..)` / `raise SystemExit(..)`."""
    def nonzero(e) -> bool:
        return isinstance(e, ast.Constant) and e.value not in (0, None, False, "") and isinstance(e.value, (int, str))
    if not h.body:
        return False
    last = h.body[-1]
    if isinstance(last, ast.Expr) and isinstance(last.value, ast.Call) and unparse(last.value.func) in ("sys.exit", "exit", "os._exit", "quit") \
            and len(last.value.args) == 1 and nonzero(last.value.args[0]):
        return True
    if isinstance(last, ast.Return) and last.value is not None and nonzero(last.value) and isinstance(fn, (ast.FunctionDef, ast.AsyncFunctionDef)):
        calls_ = [c for c in ast.walk(mi.tree) if isinstance(c, ast.Call) and isinstance(c.func, ast.Name) and c.func.id == fn.name]
        if not calls_:
            return False
        for c in calls_:
            p = parent(c)
            if not (isinstance(p, ast.Call) and c in p.args and unparse(p.func) in ("sys.exit", "SystemExit", "exit")):
                return False
        # and the success path does not return a failure code by accident: some `return 0` / `return None` / falling off the end exists
        return True
    return False


def _handler_types(h: ast.ExceptHandler) -> Set[str]:
    if h.type is None:
        return set()
    ts = h.type.elts if isinstance(h.type, ast.Tuple) else [h.type]
    out = set()
    for t in ts:
        d = dotted(t) or unparse(t)
        out.add(d.split(".")[-1])
    return out


# ------------------------------------------------------------------------------------------
class Order:
    """All MAY_REJECT points of a function precede, on every path, its first FS_WRITE point."""

    def __init__(self, ctx):
        self.ctx = ctx
        self.eff = effects_engine(ctx)
        self.memo: Dict[FuncId, Tuple[bool, str]] = {}

    def function_ok(self, fid: FuncId, stack=()) -> Tuple[bool, str]:
        if fid in self.memo:
            return self.memo[fid]
        if fid in stack:
            return False, f"recursion through {fid.qual}"
        mi, fn, ci = self.eff.funcs[fid]
        res = self.body_ok(fn.body, mi, ci, fn, stack + (fid,))
        self.memo[fid] = res
        return res

    def body_ok(self, body, mi, ci, fn, stack=()) -> Tuple[bool, str]:
        state = {"written": None}
        problem = self._walk(body, mi, ci, fn, state, stack)
        return (problem is None), (problem or "")

    def _walk(self, stmts, mi, ci, fn, state, stack) -> Optional[str]:
        for st in stmts:
            p = self._stmt(st, mi, ci, fn, state, stack)
            if p:
                return p
        return None

    def _simple(self, node, mi, ci, fn, state, stack) -> Optional[str]:
        """node: a statement without nested blocks, or an expression."""
        E = self.eff.stmt_effects(node, mi, ci, fn)
        loc = f"{mi.rel}:{getattr(node, 'lineno', 0)}"
        if MAY_REJECT in E and state["written"]:
            return (f"rejection point at {loc} ({unparse(node)[:60]!r}) can run after output was "
                    f"written at {state['written']}")
        if MAY_REJECT in E and FS_WRITE in E:
            # both inside one statement: every callee with both must itself be well ordered, and
            # at most one call in the statement may have both
            both = []
            for n in ast.walk(node):
                if isinstance(n, ast.Call):
                    for c in self.eff.resolve_call(n, mi, ci, fn):
                        if c in self.eff.funcs:
                            t = self.eff.transitive(c)
                            if MAY_REJECT in t and FS_WRITE in t:
                                both.append(c)
            if len(set(both)) != 1:
                return f"statement at {loc} mixes rejection points and writes ({[b.qual for b in both]})"
            ok, why = self.function_ok(both[0], stack)
            if not ok:
                return f"{both[0].qual}: {why}"
        if FS_WRITE in E:
            state["written"] = state["written"] or loc
        return None

    def _stmt(self, st, mi, ci, fn, state, stack) -> Optional[str]:
        if isinstance(st, ast.If):
            p = self._simple(st.test, mi, ci, fn, state, stack)
            if p:
                return p
            s1, s2 = dict(state), dict(state)
            p = self._walk(st.body, mi, ci, fn, s1, stack) or self._walk(st.orelse, mi, ci, fn, s2, stack)
            state["written"] = s1["written"] or s2["written"]
            return p
        if isinstance(st, (ast.For, ast.While)):
            head = st.iter if isinstance(st, ast.For) else st.test
            p = self._simple(head, mi, ci, fn, state, stack)
            if p:
                return p
            before = state["written"]
            p = self._walk(st.body, mi, ci, fn, state, stack)
            if p:
                return p
            if state["written"] and not before:
                # a write happened inside the loop: a rejection point in the body would run after it
                # in the next iteration - unless the loop runs at most once
                body_eff: Set[str] = set()
                for b in st.body:
                    body_eff |= self.eff.stmt_effects(b, mi, ci, fn)
                if MAY_REJECT in body_eff:
                    once, why = at_most_one_iteration(st, fn)
                    if not once:
                        return (f"loop at {mi.rel}:{st.lineno} writes output and contains a rejection "
                                f"point; a later iteration can fail after an earlier one wrote ({why})")
            return self._walk(st.orelse, mi, ci, fn, state, stack)
        if isinstance(st, ast.With):
            for it in st.items:
                p = self._simple(it.context_expr, mi, ci, fn, state, stack)
                if p:
                    return p
            return self._walk(st.body, mi, ci, fn, state, stack)
        if isinstance(st, ast.Try):
            for blk in (st.body, *[h.body for h in st.handlers], st.orelse, st.finalbody):
                p = self._walk(blk, mi, ci, fn, state, stack)
                if p:
                    return p
            return None
        if isinstance(st, (ast.FunctionDef, ast.AsyncFunctionDef, ast.ClassDef)):
            return None
        return self._simple(st, mi, ci, fn, state, stack)


def at_most_one_iteration(loop: ast.For, fn) -> Tuple[bool, str]:
    """The iterable is (a view of) a local container created empty and filled by exactly one
    store that is not inside any loop."""
    if not isinstance(loop, ast.For):
        return False, "while loop"
    it = loop.iter
    if isinstance(it, ast.Call) and isinstance(it.func, ast.Attribute) and it.func.attr in ("values", "keys", "items") \
            and not it.args:
        it = it.func.value
    if not isinstance(it, ast.Name):
        return False, f"iterable {unparse(loop.iter)} is not a local container"
    name = it.id
    binds = local_assignments(fn).get(name, [])
    if len(binds) != 1 or not isinstance(binds[0], ast.Assign):
        return False, f"{name} is bound {len(binds)} times"
    v = binds[0].value
    empty = (isinstance(v, ast.Dict) and not v.keys) or (isinstance(v, ast.List) and not v.elts) or \
            (isinstance(v, ast.Call) and unparse(v.func) in ("dict", "list") and not v.args and not v.keywords)
    if not empty:
        return False, f"{name} is not created empty"
    stores = []
    for n in walk_no_nested(fn):
        if isinstance(n, ast.Subscript) and isinstance(n.ctx, ast.Store) and isinstance(n.value, ast.Name) \
                and n.value.id == name:
            stores.append(n)
        elif isinstance(n, ast.Call) and isinstance(n.func, ast.Attribute) and isinstance(n.func.value, ast.Name) \
                and n.func.value.id == name and n.func.attr in ("append", "extend", "insert", "update",
                                                                "setdefault", "add"):
            stores.append(n)
        elif isinstance(n, ast.AugAssign) and isinstance(n.target, ast.Name) and n.target.id == name:
            stores.append(n)
    if len(stores) != 1:
        return False, f"{name} receives elements at {len(stores)} sites"
    if enclosing(stores[0], (ast.For, ast.While, ast.ListComp, ast.GeneratorExp)) is not None:
        return False, f"{name} is filled inside a loop"
    if isinstance(stores[0], ast.Call) and stores[0].func.attr in ("extend", "update"):
        return False, f"{name} is filled by {stores[0].func.attr}"
    # passing the container to a callee could fill it elsewhere
    for n in walk_no_nested(fn):
        if isinstance(n, ast.Call):
            for a in list(n.args) + [k.value for k in n.keywords]:
                if isinstance(a, ast.Name) and a.id == name:
                    return False, f"{name} escapes to {unparse(n.func)}"
    return True, f"{name} is created empty and receives one element outside any loop"


def rule_no_write_before_reject(ctx, rep: Report, rid="V5", min_entries=5):
    order = Order(ctx)
    eps = entry_points(ctx)
    for label, mi, ci, fn, body in eps:
        ok, why = order.body_ok(body, mi, ci, fn)
        rep.add(rid, f"entry:{label}:every rejection point precedes the first write", ok, why,
                f"{mi.rel}:{getattr(fn, 'lineno', 1) if not isinstance(fn, ast.Module) else body[0].lineno}")
    if len(eps) < min_entries:
        raise AnalysisError(f"{rep.prop}/{rid}: {len(eps)} entry points, {min_entries} expected")
    eff = order.eff
    rep.units["functions_in_call_graph"] = len(eff.funcs)
    rep.units["functions_reachable_from_entry_points"] = len(eff.reachable(entry_fids(ctx)))
    rep.units["calls_resolved"] = eff.resolved_calls
    rep.units["calls_to_foreign_or_unresolved"] = eff.unresolved_calls


# ------------------------------------------------------------------------------------------
def _guarded_rejections(fn) -> List[Tuple[ast.AST, str, List[str]]]:
    """(raise/assert node, own condition text, outer guard texts) of a function.  For a raise the
    own condition is the innermost enclosing guard; for an assert it is its test."""
    out = []

    def loop_filters(n) -> List[str]:
        """Enclosing loops whose iterable is not a plain name/attribute/accessor (a filtered or
        conditional iterable restricts which elements are validated)."""
        res = []
        cur = parent(n)
        while cur is not None and cur is not fn:
            if isinstance(cur, ast.For):
                it = cur.iter
                plain = isinstance(it, (ast.Name, ast.Attribute)) or (
                    isinstance(it, ast.Call) and isinstance(it.func, ast.Attribute) and not it.args
                    and isinstance(it.func.value, (ast.Name, ast.Attribute)))
                if not plain:
                    res.append(f"loop over {unparse(it)[:50]}")
            cur = parent(cur)
        return res

    for n in walk_no_nested(fn):
        if isinstance(n, ast.Raise):
            gs = [("" if pol else "not ") + f"({t})" for t, pol in guards_of(n, fn, include_exits=False)]
            own = gs[-1] if gs else ""
            out.append((n, own, gs[:-1] + loop_filters(n)))
        elif isinstance(n, ast.Assert):
            gs = [("" if pol else "not ") + f"({t})" for t, pol in guards_of(n, fn, include_exits=False)]
            out.append((n, "assert " + unparse(n.test), gs + loop_filters(n)))
    return out


def _validations_by_evaluation(ctx) -> Dict[str, List[str]]:
    """The validating constructors run (the analyser's own interpreter) on declarations that must be refused and on their valid
    neighbours: {validation: [differences]} for every validation that could be run; the others are judged by the shape of their
    guards."""
    from .rules_matlab import SampleObj, _PathEval, _Raised, mini_exec, program_classes
    prog = ctx.prog
    out: Dict[str, List[str]] = {}

    def ty(name):
        return SampleObj(__kind__="Type", typename=SampleObj(__kind__="Typename", name=name, namespaces=[], instantiations=[]), is_const="", is_ref="",
                         is_ptr="", is_shared_ptr="", is_basic=False)

    def args_of(specs):
        al = [SampleObj(__kind__="Argument", name=n_, ctype=ty(t_), default=d_, parent=None) for n_, t_, d_ in specs]
        return SampleObj(__kind__="ArgumentList", args_list=al, parent=None, list=lambda: al, __len__=lambda: len(al))

    def outcome(fn, env, **kw):
        try:
            mini_exec(fn, env, budget=20000, **kw)
            return "accepted"
        except _Raised:
            return "refused"

    def judge(what, fn, cases, **kw):
        probs = []
        try:
            for label, env, want in cases:
                got = outcome(fn, env, **kw)
                if got != want:
                    probs.append(f"{label} is {got}")
        except (_PathEval.Unknown, TypeError, KeyError, IndexError, AttributeError, RecursionError):
            return
        out[what] = probs

    # Class.__init__: every constructor is named like the class
    try:
        fn = prog.method("Class", "__init__")
        ps = func_params(fn)
        base = {"template": None, "is_virtual": "", "name": "Shape", "parent_class": [], "ctors": [], "methods": [], "static_methods": [], "dunder_methods": [],
                "properties": [], "operators": [], "enums": [], "parent": ""}
        if set(ps[1:]) <= set(base):
            def ctor(nm):
                return SampleObj(__kind__="Constructor", name=nm, args=args_of([]), parent="")

            def env_for(names, **over):
                e = {p: base[p] for p in ps[1:]}
                e.update(over)
                e[ps[0]] = SampleObj(__kind__="Class")
                e["ctors"] = [ctor(n_) for n_ in names]
                return e
            tpl = SampleObj(__kind__="Template", typenames=["T"], instantiations=[[ty("double")]])
            base_t = SampleObj(__kind__="Typename", name="Base", namespaces=["ns"], instantiations=[])
            fm = SampleObj(__kind__="Method", name="f", args=args_of([]), parent="")
            cases = [("a class without constructors", env_for([]), "accepted"), ("`Shape();`", env_for(["Shape"]), "accepted"),
                     ("`Shape(); Shape(int);`", env_for(["Shape", "Shape"]), "accepted"), ("a lone `Shap();`", env_for(["Shap"]), "refused"),
                     ("`Shape(); Shap(double);` (the second misspelt)", env_for(["Shape", "Shap"]), "refused"),
                     ("`Shap(); Shape(double);` (the first misspelt)", env_for(["Shap", "Shape"]), "refused"),
                     ("`Shape(); Shape(int); shape();` (the third in another case)", env_for(["Shape", "Shape", "shape"]), "refused"),
                     ("a class template with `Shap();`", env_for(["Shap"], template=tpl), "refused"),
                     ("a class template with `Shape();`", env_for(["Shape"], template=tpl), "accepted"),
                     ("a virtual class with a base and `Shap();`", env_for(["Shap"], is_virtual="virtual", parent_class=[base_t]), "refused"),
                     ("a virtual class with a base and `Shape();`", env_for(["Shape"], is_virtual="virtual", parent_class=[base_t]), "accepted"),
                     ("a class with methods and `Shape(); Shap();`", env_for(["Shape", "Shap"], methods=[fm], static_methods=[fm]), "refused")]
            judge("constructor name equals class name", fn, cases)
    except AnalysisError:
        pass
    # Operator.__init__
    try:
        fn = prog.method("Operator", "__init__")
        ps = func_params(fn)
        if ps[1:6] == ["name", "operator", "return_type", "args", "is_const"]:
            def env_for(op, arg_types, ret="K"):
                e = {ps[0]: SampleObj(__kind__="Operator"), "name": "operator", "operator": op, "is_const": "",
                     "return_type": SampleObj(__kind__="ReturnType", type1=ty(ret), type2=""), "args": args_of([(f"a{i_}", t_, None) for i_, t_ in enumerate(arg_types)])}
                for p_ in ps[6:]:
                    e[p_] = ""
                return e
            judge("unary operator restricted to + and -", fn,
                  [("unary `-`", env_for("-", []), "accepted"), ("unary `+`", env_for("+", []), "accepted"), ("unary `*`", env_for("*", []), "refused"),
                   ("`operator()()` without arguments", env_for("()", []), "refused"), ("unary `!`", env_for("!", []), "refused")])
            judge("operator takes at most one argument", fn,
                  [("`K operator+(K a)`", env_for("+", ["K"]), "accepted"), ("`K operator+(K a, K b)`", env_for("+", ["K", "K"]), "refused"),
                   ("`K operator()(K a, K b, K c)`", env_for("()", ["K", "K", "K"]), "refused")])
            judge("binary operator argument type equals return type", fn,
                  [("`K operator*(K a)`", env_for("*", ["K"]), "accepted"), ("`K operator*(L a)`", env_for("*", ["L"]), "refused"),
                   ("`double operator-(K a)`", env_for("-", ["K"], ret="double"), "refused"), ("`double operator()(K a)`", env_for("()", ["K"], ret="double"), "accepted"),
                   ("`double operator[](size_t i)`", env_for("[]", ["size_t"], ret="double"), "accepted")])
    except AnalysisError:
        pass
    # MatlabWrapper._expand_default_arguments: defaults at the tail only
    try:
        fn = prog.method("MatlabWrapper", "_expand_default_arguments")
        ps = func_params(fn)
        classes = program_classes(prog, ["ArgumentList", "Argument", "MatlabWrapper"])

        def meth(specs):
            return SampleObj(__kind__="Method", name="f", args=args_of(specs), parent="")
        if ps and ps[0] not in ("self", "cls"):
            cases = [("`f(int a, int b = 1)`", {ps[0]: meth([("a", "int", None), ("b", "int", "1")])}, "accepted"),
                     ("`f(int a = 1, int b = 2)`", {ps[0]: meth([("a", "int", "1"), ("b", "int", "2")])}, "accepted"),
                     ("`f(int a)`", {ps[0]: meth([("a", "int", None)])}, "accepted"),
                     ("`f(int a = 1, int b)`", {ps[0]: meth([("a", "int", "1"), ("b", "int", None)])}, "refused"),
                     ("`f(int a, int b = 1, int c, int d = 2)`", {ps[0]: meth([("a", "int", None), ("b", "int", "1"), ("c", "int", None), ("d", "int", "2")])}, "refused")]
            for _, e, _w in cases:
                for p_, d_ in zip(ps[len(ps) - len(fn.args.defaults):], fn.args.defaults):
                    e.setdefault(p_, ast.literal_eval(d_))
            judge("defaulted arguments only at the tail", fn, cases, classes=classes, methods={n_: f_ for c_ in prog.mro(prog.cls("MatlabWrapper")) for n_, f_ in c_.methods.items()})
    except (AnalysisError, ValueError):
        pass
    return out


def rule_validations_present(ctx, rep: Report, rid="V6"):
    prog = ctx.prog
    no_outer = lambda gs: not gs      # noqa: E731
    specs = [
        ("constructor name equals class name", "Class", "__init__",
         lambda g: ".name" in g and "!=" in g and g.count(".name") >= 2, no_outer),
        ("unary operator restricted to + and -", "Operator", "__init__",
         lambda g: "is_unary" in g and "not in" in g and "'+'" in g and "'-'" in g, no_outer),
        ("operator takes at most one argument", "Operator", "__init__",
         lambda g: g.startswith("assert") and "len(args)" in g and "<" in g, no_outer),
        ("binary operator argument type equals return type", "Operator", "__init__",
         lambda g: g.startswith("assert") and "typename.name" in g and "==" in g and "return_type" in g,
         lambda gs: len(gs) <= 1 and all("len(args) == 1" in x and "not in" in x and "'()'" in x for x in gs)),
        ("defaulted arguments only at the tail", "MatlabWrapper", "_expand_default_arguments",
         lambda g: g.startswith("assert") and "default is None" in g and "all(" in g, no_outer),
    ]
    decided = _validations_by_evaluation(ctx)
    rep.units["validations_decided_by_evaluation"] = sorted(decided)
    for what, cls, meth, pred, outer_ok in specs:
        fn = prog.method(cls, meth)
        ci = prog.cls(cls)
        if what in decided:
            probs = decided[what]
            rep.add(rid, f"validation:{cls}.{meth}:{what}", not probs,
                    f"run on sample declarations: {probs[:3]}: such input would be accepted and half-used (or a valid declaration is refused)",
                    f"{ci.mod.rel}:{fn.lineno}")
            continue
        cands = list(_guarded_rejections(fn))
        for sub in ast.walk(fn):
            if isinstance(sub, ast.FunctionDef) and sub is not fn:
                cands += _guarded_rejections(sub)
        # checks moved into a helper method that this one calls: the helper's rejections count, under the guards of the call
        for c in walk_no_nested(fn):
            if isinstance(c, ast.Call) and isinstance(c.func, ast.Attribute) and unparse(c.func.value) in ("self", cls):
                h = prog.find_method(ci, c.func.attr)
                if h is None or h[1] is fn:
                    continue
                outer = [("" if pol else "not ") + f"({t})" for t, pol in guards_of(c, fn, include_exits=False)]
                cands += [(n_, g_, outer + gs_) for n_, g_, gs_ in _guarded_rejections(h[1])]
        hits = [(n, g, gs) for n, g, gs in cands if pred(g)]
        rep.add(rid, f"validation:{cls}.{meth}:{what}", bool(hits),
                f"no raise/assert enforcing '{what}' found in {cls}.{meth}: such input would be "
                f"accepted and half-used", f"{ci.mod.rel}:{fn.lineno}")
        for n, g, gs in hits:
            rep.add(rid, f"validation:{cls}.{meth}:{what}:applies unconditionally", outer_ok(gs),
                    f"the check runs only under the additional condition {gs}: inputs outside it are "
                    f"accepted without validation", f"{ci.mod.rel}:{n.lineno}")


# ==========================================================================================
# C14: purity / repeatability

MUTATORS = {"append", "extend", "insert", "pop", "remove", "clear", "sort", "reverse", "update",
            "setdefault", "add", "discard", "popitem", "__setitem__"}


def _same_file_call(eff, n, mi) -> bool:
    if not isinstance(n, ast.Call):
        return False
    from .prog import dotted
    d = dotted(n.func) or ""
    if eff.canon(d, mi) in ("os.path.abspath", "osp.abspath") or d in ("os.path.abspath", "osp.abspath"):
        return len(n.args) == 1
    return isinstance(n.func, ast.Attribute) and n.func.attr == "absolute" and not n.args


def rule_no_nondeterminism(ctx, rep: Report, rid="R1"):
    eff = effects_engine(ctx)
    reach = eff.reachable(entry_fids(ctx))
    for label, mi, ci, fn, body in entry_points(ctx):
        if isinstance(fn, ast.Module):
            nd = []
            for st in body:
                for n in ast.walk(st):
                    if NONDET in eff.direct_of_node(n, mi):
                        nd.append(n)
            rep.add(rid, f"nondet-free:{label}", not nd,
                    "reads a non-deterministic source: " + ", ".join(f"{unparse(n)[:40]}@{n.lineno}" for n in nd[:3]),
                    f"{mi.rel}:{nd[0].lineno if nd else 0}", nontrivial=bool(nd))
    for fid in sorted(reach, key=repr):
        mi, fn, ci = eff.funcs[fid]
        nd = eff.direct(fid).get(NONDET, [])
        # abspath / absolute read the working directory, but name the same file: harmless where the value only ever names a file
        nd = [n for n in nd if not (_same_file_call(eff, n, mi) and uses_only_name_files(eff, n, fn, mi, ci))]
        rep.add(rid, f"nondet-free:{fid.qual}", not nd,
                "generation must depend on inputs and options only; this function reads "
                + ", ".join(f"{unparse(n)[:40]}" for n in nd[:3]),
                f"{mi.rel}:{nd[0].lineno if nd else fn.lineno}", nontrivial=bool(nd))
    rep.units["functions_reachable_from_entry_points"] = len(reach)
    if len(reach) < 100:
        raise AnalysisError(f"{rep.prop}/{rid}: only {len(reach)} functions reachable from the entry points")


def rule_no_unordered(ctx, rep: Report, rid="R2"):
    prog = ctx.prog
    for mi in sorted(prog.modules.values(), key=lambda m: m.rel):
        bad = []
        for n in ast.walk(mi.tree):
            is_set = isinstance(n, (ast.Set, ast.SetComp)) or (
                isinstance(n, ast.Call) and isinstance(n.func, ast.Name) and n.func.id in ("set", "frozenset"))
            if not is_set:
                continue
            p = parent(n)
            # membership-only uses are order-free
            if isinstance(p, ast.Compare) and n in p.comparators and all(isinstance(o, (ast.In, ast.NotIn)) for o in p.ops):
                continue
            # so is everything that only asks the set a question (truth, length, algebra, sorted(), an error message)
            if order_free_use(n, enclosing(n, (ast.FunctionDef, ast.Module)) or mi.tree):
                continue
            if isinstance(p, ast.Assign) and len(p.targets) == 1 and isinstance(p.targets[0], ast.Name):
                nm = p.targets[0].id
                scope = enclosing(p, (ast.FunctionDef, ast.Module)) or mi.tree
                uses = [u for u in ast.walk(scope) if isinstance(u, ast.Name) and u.id == nm and isinstance(u.ctx, ast.Load)]

                def member_only(u):
                    q = parent(u)
                    if isinstance(q, ast.Compare) and u in q.comparators and all(isinstance(o, (ast.In, ast.NotIn)) for o in q.ops):
                        return True
                    if isinstance(q, ast.Attribute) and q.attr in ("add", "discard", "update", "remove") :
                        return True
                    return False
                if uses and all(member_only(u) for u in uses):
                    continue
            # a table of sets filled with setdefault(k, set()).add(v) and read only through `x in table[k]`
            if isinstance(p, ast.Call) and isinstance(p.func, ast.Attribute) and p.func.attr == "setdefault" and n in p.args \
                    and isinstance(p.func.value, ast.Name):
                tb = p.func.value.id
                scope = enclosing(p, (ast.FunctionDef, ast.Module)) or mi.tree
                ok_uses = True
                for u in ast.walk(scope):
                    if isinstance(u, ast.Name) and u.id == tb and isinstance(u.ctx, ast.Load):
                        q = parent(u)
                        if isinstance(q, ast.Attribute) and q.attr == "setdefault":
                            qq = parent(parent(q))
                            if not (isinstance(qq, ast.Attribute) and qq.attr in ("add", "update", "discard")):
                                ok_uses = False
                        elif isinstance(q, ast.Subscript) and q.value is u:
                            c = parent(q)
                            if not (isinstance(c, ast.Compare) and q in c.comparators and all(isinstance(o, (ast.In, ast.NotIn)) for o in c.ops)):
                                ok_uses = False
                        else:
                            ok_uses = False
                if ok_uses:
                    continue
            # handed back to the caller (directly or through a compute-once table): every caller only tests membership
            f = enclosing(n, ast.FunctionDef)
            if f is not None and (isinstance(p, ast.Return) or (isinstance(p, ast.Assign) and isinstance(p.targets[0], ast.Subscript)
                                                                and any(isinstance(r.value, ast.Subscript) and unparse(r.value.value) == unparse(p.targets[0].value)
                                                                        for r in ast.walk(f) if isinstance(r, ast.Return) and r.value is not None))):
                calls = [c for m2 in prog.modules.values() for c in ast.walk(m2.tree) if isinstance(c, ast.Call) and (
                    (isinstance(c.func, ast.Attribute) and c.func.attr == f.name) or (isinstance(c.func, ast.Name) and c.func.id == f.name))]
                if calls and all(isinstance(parent(c), ast.Compare) and c in parent(c).comparators and
                                 all(isinstance(o, (ast.In, ast.NotIn)) for o in parent(c).ops) for c in calls):
                    continue
            bad.append(n)
        rep.add(rid, f"no unordered collection feeding output in {mi.rel}", not bad,
                "a set is created and used beyond membership tests; its iteration order depends on "
                "PYTHONHASHSEED: " + ", ".join(f"{unparse(n)[:40]}@{n.lineno}" for n in bad[:3]),
                f"{mi.rel}:{bad[0].lineno if bad else 0}", nontrivial=bool(bad))


def _self_mutations(fn) -> List[Tuple[str, ast.AST, str]]:
    """(attr, node, how) for stores / in-place mutations of self.<attr> in fn."""
    out = []
    for n in walk_no_nested(fn):
        if isinstance(n, ast.Attribute) and isinstance(n.value, ast.Name) and n.value.id == "self":
            p = parent(n)
            if isinstance(n.ctx, ast.Store):
                out.append((n.attr, n, "assign"))
            elif isinstance(p, ast.Attribute) and p.attr in MUTATORS and isinstance(parent(p), ast.Call) \
                    and parent(p).func is p:
                out.append((n.attr, p, p.attr))
            elif isinstance(p, ast.Subscript) and p.value is n and isinstance(p.ctx, (ast.Store, ast.Del)):
                out.append((n.attr, p, "item store"))
            elif isinstance(p, ast.AugAssign) and p.target is n:
                out.append((n.attr, p, "augmented assign"))
            elif isinstance(p, ast.Subscript) and p.value is n and isinstance(parent(p), ast.AugAssign) \
                    and parent(p).target is p:
                out.append((n.attr, p, "item augmented assign"))
    return out


def _is_fresh_value(v: ast.AST) -> bool:
    if isinstance(v, (ast.List, ast.Dict, ast.Tuple, ast.Set)) and not getattr(v, "elts", getattr(v, "keys", [])):
        return True
    if isinstance(v, ast.Constant):
        return True
    if isinstance(v, ast.Call) and not v.args and not v.keywords:
        return True
    return False


def rule_accumulators(ctx, rep: Report, rid="R3"):
    """Every attribute mutated on a path from PybindWrapper.wrap_file is re-initialised by wrap_file."""
    prog = ctx.prog
    eff = effects_engine(ctx)
    root = eff.entry("PybindWrapper", "wrap_file")
    wf = prog.method("PybindWrapper", "wrap_file")
    pw = prog.cls("PybindWrapper")
    resets: Dict[str, ast.AST] = {}
    for n in walk_no_nested(wf):
        if isinstance(n, ast.Assign) and len(n.targets) > 1 and all(isinstance(t, ast.Attribute) and isinstance(t.value, ast.Name) and t.value.id == "self"
                                                                     for t in n.targets) and _is_fresh_value(n.value):
            # `self.a = self.b = []` binds both attributes to ONE list; with a constant it is an ordinary reset of each
            shared = not isinstance(n.value, ast.Constant)
            rep.add(rid, f"state:{'/'.join(t.attr for t in n.targets)}:each accumulator is re-initialised with a container of its own", not shared,
                    f"`{unparse(n)[:60]}` makes the attributes aliases of one object: what is appended to one while the next file is wrapped shows up "
                    f"in the other (submodule variables in the export block, exported classes in the submodule list)", f"{pw.mod.rel}:{n.lineno}")
            if enclosing(n, (ast.If, ast.For, ast.While, ast.Try)) is None:
                for t in n.targets:
                    resets[t.attr] = n
        if isinstance(n, ast.Assign) and len(n.targets) == 1:
            t = n.targets[0]
            if isinstance(t, ast.Attribute) and isinstance(t.value, ast.Name) and t.value.id == "self" \
                    and _is_fresh_value(n.value) and enclosing(n, (ast.If, ast.For, ast.While, ast.Try)) is None:
                resets[t.attr] = n
        elif isinstance(n, ast.Expr) and isinstance(n.value, ast.Call) and isinstance(n.value.func, ast.Attribute) \
                and n.value.func.attr == "clear" and isinstance(n.value.func.value, ast.Attribute) \
                and isinstance(n.value.func.value.value, ast.Name) and n.value.func.value.value.id == "self" \
                and enclosing(n, (ast.If, ast.For, ast.While, ast.Try)) is None:
            resets[n.value.func.value.attr] = n
    # holder attributes: self.<h> = K()  in __init__  -> class K is "held"
    held: Dict[str, str] = {}
    init = prog.find_method(pw, "__init__")
    if init:
        for n in walk_no_nested(init[1]):
            if isinstance(n, ast.Assign) and len(n.targets) == 1 and isinstance(n.targets[0], ast.Attribute) \
                    and isinstance(n.value, ast.Call):
                rc = prog.resolve_class(n.value.func, pw.mod)
                if rc is not None:
                    held[rc.qual] = n.targets[0].attr
    n_mut = 0
    seen = set()
    for fid in sorted(eff.reachable([root]), key=repr):
        mi, fn, ci = eff.funcs[fid]
        if ci is None or fn.name == "__init__":
            continue
        for attr, node, how in _self_mutations(fn):
            owner = None
            for c in prog.mro(ci):
                owner = c
                break
            key = (ci.qual, attr)
            if key in seen:
                continue
            seen.add(key)
            n_mut += 1
            if prog.is_subclass(ci, pw) or ci is pw:
                ok = attr in resets
                why = (f"self.{attr} is modified ({how}) while wrapping a file but wrap_file never "
                       f"re-initialises it: a second wrap_file call on the same wrapper starts from the "
                       f"state the first one left")
            elif ci.qual in held:
                h = held[ci.qual]
                ok = h in resets
                why = (f"{ci.qual}.{attr} is modified ({how}) while wrapping a file; the {ci.qual} object is "
                       f"created once in PybindWrapper.__init__ (self.{h}) and wrap_file never replaces or "
                       f"resets it: state leaks from one wrapped file into the next")
            else:
                # objects created per call (parse tree nodes, instantiated classes ...) are fresh
                continue
            rep.add(rid, f"state:{ci.qual}.{attr}:reset by wrap_file", ok, why, f"{mi.rel}:{node.lineno}")
    rep.units["mutated_wrapper_attributes"] = n_mut
    if n_mut < 2:
        raise AnalysisError(f"{rep.prop}/{rid}: only {n_mut} mutated attributes found (>= 2 expected)")


# ------------------------------------------------------------------------------------------
def _roots(fn, e: ast.AST, depth=6, _seen=None) -> Set[str]:
    """Root names an expression depends on: parameters, self.attr chains, free names; locals are
    followed through all their definitions."""
    params = set(func_params(fn)) if not isinstance(fn, ast.Module) else set()
    assigns = local_assignments(fn) if not isinstance(fn, ast.Module) else {}
    out: Set[str] = set()
    _seen = _seen or set()

    def visit(x, d):
        if isinstance(x, ast.Name):
            if x.id in params:
                out.add(x.id)
            elif x.id in assigns and d > 0 and x.id not in _seen:
                _seen.add(x.id)
                for st in assigns[x.id]:
                    if isinstance(st, ast.Assign):
                        visit(st.value, d - 1)
                    elif isinstance(st, (ast.For, ast.comprehension)):
                        visit(st.iter, d - 1)
                    elif isinstance(st, ast.AugAssign):
                        visit(st.value, d - 1)
                    elif isinstance(st, ast.With):
                        for it in st.items:
                            visit(it.context_expr, d - 1)
            else:
                out.add(x.id)
            return
        if isinstance(x, ast.Attribute):
            dn = dotted(x)
            if dn and dn.startswith("self."):
                own = attr_def(fn, dn.split(".")[1], getattr(x, "lineno", None)) if dn.count(".") == 1 and d > 0 and getattr(x, "lineno", None) else None
                if own is not None and ("@" + dn) not in _seen:
                    _seen.add("@" + dn)           # bound by this very function before the use: what it was bound to decides
                    visit(own, d - 1)
                    return
                out.add(dn)
                return
        if isinstance(x, ast.Constant):
            return
        for c in ast.iter_child_nodes(x):
            if isinstance(x, ast.Call) and c is x.func:
                if isinstance(c, ast.Attribute):
                    visit(c.value, d)
                continue
            visit(c, d)

    visit(e, depth)
    return out


def _write_sites(eff: Effects, fid: FuncId):
    mi, fn, ci = eff.funcs[fid]
    for n in eff.direct(fid).get(FS_WRITE, []):
        if isinstance(n, ast.Call) and n.args:
            yield n, n.args[0]
        elif isinstance(n, ast.Call) and isinstance(n.func, ast.Attribute):
            yield n, n.func.value


INTERFACE_EXTS = {".i", ".h"}


def _input_params(eff: Effects, fid: FuncId) -> Set[str]:
    """Parameters of fid that (transitively through locals) name a path opened for reading."""
    mi, fn, ci = eff.funcs[fid]
    out: Set[str] = set()
    params = set(func_params(fn))
    for n in eff.direct(fid).get(FS_READ, []):
        if isinstance(n, ast.Call) and n.args:
            out |= _roots(fn, n.args[0]) & params
    return out


def rule_write_provenance(ctx, rep: Report, rid="R4", min_sites=4):
    prog = ctx.prog
    eff = effects_engine(ctx)
    reach = eff.reachable(entry_fids(ctx))
    public = {eff.entry("PybindWrapper", "wrap"), eff.entry("PybindWrapper", "wrap_submodule"),
              eff.entry("MatlabWrapper", "wrap")}
    callers: Dict[FuncId, List[Tuple[FuncId, ast.Call]]] = {}
    for f in reach:
        mi, fn, ci = eff.funcs[f]
        for n in walk_no_nested(fn):
            if isinstance(n, ast.Call):
                for c in eff.resolve_call(n, mi, ci, fn):
                    callers.setdefault(c, []).append((f, n))

    def output_param(fid: FuncId, p: str, depth=4) -> Tuple[bool, str]:
        mi, fn, ci = eff.funcs[fid]
        if fid in public:
            if p in _input_params(eff, fid):
                return False, f"{fid.qual}({p}) names an input that is opened for reading"
            return True, f"{fid.qual}({p}) is an output location chosen by the caller"
        if depth == 0:
            return False, "call chain too deep"
        sites = [(c, call) for c, call in callers.get(fid, []) if c in reach]
        if not sites:
            return False, f"{fid.qual} has no caller on a path from a public entry point"
        from .prog import bind_call
        for c, call in sites:
            cmi, cfn, cci = eff.funcs[c]
            try:
                b = bind_call(fn, call, drop_self=ci is not None and not _is_static(fn))
            except AnalysisError as e:
                return False, str(e)
            if p not in b:
                return False, f"{c.qual} does not pass {p}"
            roots = _roots(cfn, b[p]) & set(func_params(cfn))
            if not roots:
                return False, f"{c.qual} passes {unparse(b[p])[:40]} for {p}: not derived from a parameter"
            oks = [output_param(c, r, depth - 1) if c != fid else (r == p, "recursive call") for r in roots]
            if not any(o for o, _ in oks):
                return False, oks[0][1]
        return True, f"bound to an output location at every call site of {fid.qual}"

    n = 0
    for fid in sorted(reach, key=repr):
        mi, fn, ci = eff.funcs[fid]
        params = set(func_params(fn))
        for call, pathx in _write_sites(eff, fid):
            n += 1
            key = f"write:{fid.qual}:{unparse(call.func)}({unparse(pathx)[:50]})"
            roots = _roots(fn, pathx)
            proots = roots & params
            verdicts = [(r, *output_param(fid, r)) for r in sorted(proots)]
            good = [v for v in verdicts if v[1]]
            if good:
                rep.add(rid, key, True, "; ".join(v[2] for v in good), f"{mi.rel}:{call.lineno}")
                continue
            # derived from an input path only: accepted idiom  <stem> + constant suffix
            ok, why = _stem_plus_suffix(fn, pathx)
            if not proots:
                why = ("the path written to is not derived from any parameter: a file nobody asked for "
                       f"(roots: {sorted(roots)})")
                ok = False
            elif not ok:
                why = ("the output path is computed from the *input* path " +
                       f"({', '.join(v[2] for v in verdicts)}) by {unparse(pathx)[:60]}, which does not "
                       "guarantee a different file: " + why)
            rep.add(rid, key, ok, why, f"{mi.rel}:{call.lineno}")
    rep.units["write_sites"] = n
    if n < min_sites:
        raise AnalysisError(f"{rep.prop}/{rid}: {n} write sites found, {min_sites} expected")


def _is_static(fn) -> bool:
    return any(unparse(d) in ("staticmethod",) for d in fn.decorator_list)


def _stem_plus_suffix(fn, e: ast.AST) -> Tuple[bool, str]:
    """<something>.stem + '.ext' (or f-string / with_suffix('.ext')) with a constant extension that
    is not an interface-file extension."""
    from .prog import inline_locals
    x = inline_locals(fn, e)
    suffix = None
    base = None
    if isinstance(x, ast.BinOp) and isinstance(x.op, ast.Add) and isinstance(x.right, ast.Constant) \
            and isinstance(x.right.value, str):
        suffix, base = x.right.value, x.left
    elif isinstance(x, ast.JoinedStr) and len(x.values) == 2 and isinstance(x.values[0], ast.FormattedValue) \
            and isinstance(x.values[1], ast.Constant):
        suffix, base = x.values[1].value, x.values[0].value
    elif isinstance(x, ast.Call) and isinstance(x.func, ast.Attribute) and x.func.attr == "with_suffix" \
            and x.args and isinstance(x.args[0], ast.Constant):
        suffix, base = x.args[0].value, x.func.value
        if isinstance(base, ast.Attribute) and base.attr in ("name",):
            base = ast.Attribute(value=base.value, attr="stem", ctx=ast.Load())
        else:
            return False, "with_suffix on a full path keeps the directory of the input"
    if suffix is None:
        if "replace" in unparse(x):
            return False, ("str.replace leaves the name unchanged when the pattern is absent (e.g. a `.h` "
                           "interface file) and rewrites every occurrence when it is present")
        return False, "not of the form <stem> + constant suffix"
    if not (isinstance(base, ast.Attribute) and base.attr == "stem"):
        return False, f"{unparse(base)[:40]} is not a file stem"
    if not suffix.startswith(".") or suffix in INTERFACE_EXTS:
        return False, f"suffix {suffix!r} can equal the interface file's own extension"
    return True, f"<stem>{suffix} in the working directory; cannot coincide with a .i/.h interface file"


def rule_whole_file_writes(ctx, rep: Report, rid="R6", min_sites=3):
    eff = effects_engine(ctx)
    reach = eff.reachable(entry_fids(ctx))
    n = 0
    for fid in sorted(reach, key=repr):
        mi, fn, ci = eff.funcs[fid]
        for w in walk_no_nested(fn):
            if not isinstance(w, ast.With):
                continue
            for it in w.items:
                c = it.context_expr
                if isinstance(c, ast.Call) and FS_WRITE in eff.direct_of_node(c, mi) and it.optional_vars is not None:
                    n += 1
                    var = unparse(it.optional_vars)
                    body = w.body
                    one = len(body) == 1 and isinstance(body[0], ast.Expr) and isinstance(body[0].value, ast.Call) \
                        and unparse(body[0].value.func) == f"{var}.write" and len(body[0].value.args) == 1
                    built = one and not any(isinstance(x, ast.Call) for x in ast.walk(body[0].value.args[0]))
                    rep.add(rid, f"whole-file:{fid.qual}:{unparse(c.args[0])[:40] if c.args else ''}", one and built,
                            "each output must be written by one write() of a completely built text right "
                            "after its open(): text generated while the file is open can fail half-way and "
                            "leave a truncated file", f"{mi.rel}:{w.lineno}")
                    mode = c.args[1] if len(c.args) > 1 else next((k.value for k in c.keywords if k.arg == "mode"), None)
                    if (dotted(c.func) or "") in ("open", "io.open", "codecs.open") or (isinstance(c.func, ast.Attribute) and c.func.attr == "open"):
                        mv = mode.value if isinstance(mode, ast.Constant) else None
                        rep.add(rid, f"truncating-open:{fid.qual}:{unparse(c.args[0])[:40] if c.args else ''}",
                                isinstance(mv, str) and mv.replace("b", "").replace("t", "") in ("w", "x"),
                                f"opened with mode {unparse(mode) if mode is not None else None}: only 'w'/'x' start from an empty file; "
                                "'r+' / 'a' keep what an earlier run left in a file of the same name, so the output depends on the "
                                "previous content of the build directory", f"{mi.rel}:{w.lineno}")
        # pathlib form: Path(..).write_text(text) opens, writes and closes in one call
        for c in walk_no_nested(fn):
            if isinstance(c, ast.Call) and isinstance(c.func, ast.Attribute) and c.func.attr in ("write_text", "write_bytes") and c.args:
                n += 1
                built = not any(isinstance(x, ast.Call) for x in ast.walk(c.args[0]))
                rep.add(rid, f"whole-file:{fid.qual}:{unparse(c.func.value)[:40]}", built,
                        "the text handed to write_text must be completely built before the call: a generator that fails inside the argument "
                        "expression fails before the file is touched only if nothing was opened yet - which holds for write_text - but keep the "
                        "text in a local so that the rejection points stay in front of the write", f"{mi.rel}:{c.lineno}")
    if n < min_sites:
        raise AnalysisError(f"{rep.prop}/{rid}: {n} open-for-write sites found, {min_sites} expected")


def _from_cli(fn, e: ast.AST) -> bool:
    """The expression is an attribute of the namespace returned by ArgumentParser.parse_args() (called here, or in a
    module-level helper all of whose returns are that call)."""
    def is_pa(x):
        return isinstance(x, ast.Call) and isinstance(x.func, ast.Attribute) and x.func.attr == "parse_args"
    root = fn
    while parent(root) is not None:
        root = parent(root)
    helpers = set()
    for f in getattr(root, "body", []):
        if isinstance(f, ast.FunctionDef):
            rets = [r.value for r in ast.walk(f) if isinstance(r, ast.Return) and r.value is not None]
            bound = {st.targets[0].id for st in ast.walk(f) if isinstance(st, ast.Assign) and len(st.targets) == 1
                     and isinstance(st.targets[0], ast.Name) and is_pa(st.value)}
            if rets and all(is_pa(r) or (isinstance(r, ast.Name) and r.id in bound) for r in rets):
                helpers.add(f.name)
    for n in ast.walk(e):
        if isinstance(n, ast.Attribute) and isinstance(n.value, ast.Name):
            for d in ast.walk(fn):
                if isinstance(d, ast.Assign) and len(d.targets) == 1 and isinstance(d.targets[0], ast.Name) \
                        and d.targets[0].id == n.value.id and isinstance(d.value, ast.Call) \
                        and (is_pa(d.value) or (isinstance(d.value.func, ast.Name) and d.value.func.id in helpers)):
                    return True
    return False


def rule_read_sites(ctx, rep: Report, rid="R5", min_sites=4):
    eff = effects_engine(ctx)
    reach = eff.reachable(entry_fids(ctx))
    n = 0
    todo = [(fid, *eff.funcs[fid]) for fid in sorted(reach, key=repr)]
    for label, mi, ci, fn, body in entry_points(ctx):
        if isinstance(fn, ast.Module):
            todo.append((FuncId(mi.rel, label), mi, fn, ci))
    for fid, mi, fn, ci in todo:
        nodes = eff.direct(fid).get(FS_READ, []) if fid in eff.funcs else \
            [x for st in (fn.body if not isinstance(fn, ast.Module) else fn.body) for x in ast.walk(st)
             if FS_READ in eff.direct_of_node(x, mi)]
        for call in nodes:
            if not (isinstance(call, ast.Call) and call.args):
                continue
            n += 1
            roots = _roots(fn, call.args[0])
            params = set(func_params(fn)) if not isinstance(fn, ast.Module) else set()
            ok = bool(roots & params) or "__file__" in roots or _from_cli(fn, call.args[0]) \
                or any(r.startswith("self.") for r in roots)
            rep.add(rid, f"read:{fid.qual}:{unparse(call.args[0])[:50]}", ok,
                    "reads a file that is neither a given input nor the bundled template "
                    f"(path depends on {sorted(roots)})", f"{mi.rel}:{call.lineno}")
    if n < min_sites:
        raise AnalysisError(f"{rep.prop}/{rid}: {n} read sites found, {min_sites} expected")


def _mutable_literal(v: ast.AST) -> bool:
    if isinstance(v, (ast.Dict, ast.List, ast.Set, ast.ListComp, ast.DictComp, ast.SetComp)):
        return True
    if isinstance(v, ast.Call) and isinstance(v.func, ast.Name) and v.func.id in (
            "dict", "list", "set", "defaultdict", "OrderedDict", "Counter", "deque"):
        return True
    if isinstance(v, ast.Call) and (dotted(v.func) or "").split(".")[-1] in ("defaultdict", "OrderedDict", "Counter", "deque"):
        return True
    return False


def rule_no_shared_state(ctx, rep: Report, rid="R3", packages=("gtwrap/", "scripts/")):
    """No class-level or module-level mutable container (or global) is mutated at run time:
    such state outlives the wrapper object and leaks from one wrap call / file into the next."""
    prog = ctx.prog
    n = 0
    for mi in sorted(prog.modules.values(), key=lambda m: m.rel):
        if not mi.rel.startswith(packages):
            continue
        # module-level mutable names
        mod_mut = {}
        for st in mi.tree.body:
            if isinstance(st, ast.Assign) and len(st.targets) == 1 and isinstance(st.targets[0], ast.Name) \
                    and _mutable_literal(st.value):
                mod_mut[st.targets[0].id] = st
            elif isinstance(st, ast.AnnAssign) and isinstance(st.target, ast.Name) and st.value is not None \
                    and _mutable_literal(st.value):
                mod_mut[st.target.id] = st
        for qual, ci in mi.classes.items():
            cls_mut = {a: v for a, v in ci.attrs.items() if _mutable_literal(v)}
            inst_assigned = set()
            for c in prog.mro(ci):
                init = c.methods.get("__init__")
                if init is not None:
                    for x in walk_no_nested(init):
                        if isinstance(x, ast.Attribute) and isinstance(x.ctx, ast.Store) and \
                                isinstance(x.value, ast.Name) and x.value.id == "self":
                            inst_assigned.add(x.attr)
            for attr in sorted(cls_mut):
                n += 1
                sites = []
                for c2 in prog.classes.values():
                    for k in c2:
                        if not (prog.is_subclass(k, ci) or k is ci):
                            continue
                        for mname, fn in k.methods.items():
                            for a, node, how in _self_mutations(fn):
                                if a == attr and how != "assign" and attr not in inst_assigned:
                                    sites.append((k.mod.rel, node.lineno, f"self.{attr} {how} in {k.qual}.{mname}"))
                # Class.attr mutations anywhere
                for m2 in prog.modules.values():
                    for x in ast.walk(m2.tree):
                        if isinstance(x, ast.Attribute) and x.attr == attr and prog.resolve_class(x.value, m2) is ci:
                            p = parent(x)
                            if isinstance(x.ctx, ast.Store) or (isinstance(p, ast.Attribute) and p.attr in MUTATORS) or \
                                    (isinstance(p, ast.Subscript) and isinstance(p.ctx, (ast.Store, ast.Del))) or \
                                    isinstance(p, ast.AugAssign):
                                if enclosing(x, (ast.FunctionDef, ast.Lambda)) is not None:
                                    sites.append((m2.rel, x.lineno, f"{ci.qual}.{attr} modified"))
                rep.add(rid, f"shared-state:{ci.qual}.{attr}:class-level container never mutated at run time", not sites,
                        "a class-level container is shared by every instance for the life of the process; "
                        "mutating it makes the output depend on earlier wrap calls / files: " +
                        "; ".join(f"{s[2]} @ {s[0]}:{s[1]}" for s in sites[:3]),
                        f"{mi.rel}:{sites[0][1] if sites else cls_mut[attr].lineno}", nontrivial=bool(sites))
        for name in sorted(mod_mut):
            n += 1
            sites = []
            for fnname, fn in list(mi.functions.items()) + [(f"{q}.{m}", f) for q, c in mi.classes.items() for m, f in c.methods.items()]:
                local = {a.arg for a in fn.args.args} | set(local_assignments(fn))
                if name in local:
                    continue
                for x in walk_no_nested(fn):
                    if isinstance(x, ast.Name) and x.id == name:
                        p = parent(x)
                        if (isinstance(p, ast.Attribute) and p.attr in MUTATORS) or \
                                (isinstance(p, ast.Subscript) and isinstance(p.ctx, (ast.Store, ast.Del))) or \
                                (isinstance(p, ast.AugAssign) and p.target is x):
                            sites.append((mi.rel, x.lineno, f"{name} modified in {fnname}"))
            rep.add(rid, f"shared-state:{mi.rel}:{name}:module-level container never mutated at run time", not sites,
                    "module-level state outlives every wrapper object: " + "; ".join(f"{s[2]} @ {s[0]}:{s[1]}" for s in sites[:3]),
                    f"{mi.rel}:{sites[0][1] if sites else mod_mut[name].lineno}", nontrivial=bool(sites))
        globs = [x for x in ast.walk(mi.tree) if isinstance(x, (ast.Global,))]
        decos = [d for f in ast.walk(mi.tree) if isinstance(f, (ast.FunctionDef,)) for d in f.decorator_list
                 if (dotted(d.func if isinstance(d, ast.Call) else d) or "").split(".")[-1] in ("lru_cache", "cache", "cached_property")]
        n += 1
        rep.add(rid, f"shared-state:{mi.rel}:no `global` rebinding or process-wide memo decorators", not globs and not decos,
                "process-wide state: " + ", ".join([f"global {','.join(g.names)}@{g.lineno}" for g in globs] +
                                                    [f"@{unparse(d)}@{d.lineno}" for d in decos]),
                f"{mi.rel}:{(globs + decos)[0].lineno if globs or decos else 0}", nontrivial=bool(globs or decos))
    rep.units["shared_state_instances"] = n
    # default parameter values are created once, when the `def` is executed: a list / dict default that the function grows (or
    # hands out) is process-wide state in disguise
    for label, src, want in (("positive", "def f(x, acc=[]):\n    acc.append(x)\n    return acc\n", True),
                             ("negative", "def f(x, acc=None, names=()):\n    acc = [] if acc is None else acc\n    acc.append(x)\n    return acc\n", False)):
        t_ = ast.parse(src)
        for p_ in ast.walk(t_):
            for c_ in ast.iter_child_nodes(p_):
                c_._parent = p_
        if bool(_mutable_default_sites(t_.body[0])) != want:
            raise AnalysisError(f"{rep.prop}/{rid}: built-in {label} example for mutable defaults is not decided as expected")
    nfun = ndef = 0
    for mi in sorted(prog.modules.values(), key=lambda m: m.rel):
        if not mi.rel.startswith(packages):
            continue
        for fn in [x for x in ast.walk(mi.tree) if isinstance(x, (ast.FunctionDef, ast.AsyncFunctionDef))]:
            nfun += 1
            for pname, dflt, sites in _mutable_default_sites(fn, every=True):
                ndef += 1
                rep.add(rid, f"shared-state:{mi.rel}:{fn.name}({pname}={unparse(dflt)[:12]}):a mutable default value is never modified or handed out", not sites,
                        f"the default of `{pname}` is one object for the life of the process; {sites[:2]}: whatever one call leaves in it is seen by every "
                        f"later call that relies on the default (the output for a file then contains what earlier wrap calls produced)",
                        f"{mi.rel}:{fn.lineno}", nontrivial=bool(sites))
    rep.units["functions_scanned_for_mutable_defaults"] = nfun
    rep.units["mutable_default_values"] = ndef


def _mutable_default_sites(fn, every: bool = False):
    """[(parameter, default expression, [where the default object is modified in place, returned or stored])] for parameters of fn whose
    default is a mutable container; with every=False only those that have such a site."""
    a = fn.args
    pos = a.posonlyargs + a.args
    pairs = list(zip([x.arg for x in pos[len(pos) - len(a.defaults):]], a.defaults)) + \
        [(k.arg, d) for k, d in zip(a.kwonlyargs, a.kw_defaults) if d is not None]
    out = []
    for pname, d in pairs:
        if not _mutable_literal(d):
            continue
        sites = []
        rebound_first = False
        for st in fn.body:
            # `p = [] if p is None else p`-style rebinding before any use does not apply to a mutable default; a plain `p = list(p)` does
            if isinstance(st, ast.Assign) and len(st.targets) == 1 and isinstance(st.targets[0], ast.Name) and st.targets[0].id == pname \
                    and isinstance(st.value, ast.Call) and unparse(st.value.func) in ("list", "dict", "set", "copy.copy", "copy.deepcopy", "deepcopy") :
                rebound_first = True
            break
        if not rebound_first:
            for x in walk_no_nested(fn):
                if isinstance(x, ast.Name) and x.id == pname and isinstance(x.ctx, ast.Load):
                    p = parent(x)
                    if isinstance(p, ast.Attribute) and p.attr in MUTATORS and isinstance(parent(p), ast.Call):
                        sites.append(f"line {x.lineno}: .{p.attr}()")
                    elif isinstance(p, ast.Subscript) and isinstance(p.ctx, (ast.Store, ast.Del)) and p.value is x:
                        sites.append(f"line {x.lineno}: item store")
                    elif isinstance(p, ast.Return) or (isinstance(p, ast.Tuple) and isinstance(parent(p), ast.Return)):
                        sites.append(f"line {x.lineno}: returned")
                    elif isinstance(p, ast.Assign) and p.value is x and any(isinstance(t, ast.Attribute) for t in p.targets):
                        sites.append(f"line {x.lineno}: stored in {unparse(p.targets[0])}")
                elif isinstance(x, ast.AugAssign) and isinstance(x.target, ast.Name) and x.target.id == pname:
                    sites.append(f"line {x.lineno}: augmented assignment")
        if sites or every:
            out.append((pname, d, sites))
    return out


# ------------------------------------------------------------------------------------------
# per-item scalar state kept on the wrapper object
def _self_attr(n, attr=None):
    return isinstance(n, ast.Attribute) and isinstance(n.value, ast.Name) and n.value.id == "self" and \
        (attr is None or n.attr == attr)


class _MustDef:
    """Forward must-analysis over one method: is `self.<attr>` assigned on every path from the method's
    entry to a program point?  Unconditional calls of methods that themselves always assign count."""

    def __init__(self, methods: Dict[str, ast.FunctionDef], attr: str):
        self.methods, self.attr = methods, attr
        self.always: Dict[str, bool] = {}
        self.reads: List[Tuple[str, ast.AST]] = []          # reads reached while not defined
        self.calls: Dict[str, List[Tuple[str, bool]]] = {}  # callee -> [(caller, defined at the call)]

    def always_defines(self, name: str, depth=4) -> bool:
        if name in self.always:
            return self.always[name]
        self.always[name] = False
        fn = self.methods.get(name)
        if fn is not None and depth > 0:
            self.always[name] = self._block(fn.body, False, None, depth)
        return self.always[name]

    def _expr(self, e, defined, meth, depth):
        """Effects of evaluating expression e (in source order, conservatively): records reads/calls."""
        for n in sorted((x for x in ast.walk(e)), key=lambda x: (getattr(x, "lineno", 0), getattr(x, "col_offset", 0))):
            if _self_attr(n, self.attr) and isinstance(n.ctx, ast.Load) and meth is not None and not defined:
                self.reads.append((meth, n))
            if isinstance(n, ast.Call) and _self_attr(n.func) and n.func.attr in self.methods:
                if meth is not None:
                    self.calls.setdefault(n.func.attr, []).append((meth, defined))
                conditional = False
                p = n
                while p is not e and p is not None:
                    q = parent(p)
                    if isinstance(q, (ast.IfExp, ast.BoolOp, ast.Lambda, ast.ListComp, ast.GeneratorExp, ast.SetComp, ast.DictComp)):
                        conditional = True
                    p = q
                if not conditional and self.always_defines(n.func.attr, depth - 1):
                    defined = True
        return defined

    def _block(self, stmts, defined, meth, depth) -> bool:
        for st in stmts:
            if isinstance(st, (ast.FunctionDef, ast.AsyncFunctionDef, ast.ClassDef)):
                if meth is not None and not defined:
                    for n in ast.walk(st):
                        if _self_attr(n, self.attr) and isinstance(n.ctx, ast.Load):
                            self.reads.append((meth, n))
                continue
            if isinstance(st, ast.If):
                defined = self._expr(st.test, defined, meth, depth)
                a = self._block(st.body, defined, meth, depth)
                b = self._block(st.orelse, defined, meth, depth)
                defined = defined or (a and b)
            elif isinstance(st, (ast.For, ast.AsyncFor)):
                defined = self._expr(st.iter, defined, meth, depth)
                self._block(st.body, defined, meth, depth)
                self._block(st.orelse, defined, meth, depth)
            elif isinstance(st, ast.While):
                defined = self._expr(st.test, defined, meth, depth)
                self._block(st.body, defined, meth, depth)
                self._block(st.orelse, defined, meth, depth)
            elif isinstance(st, (ast.With, ast.AsyncWith)):
                for it in st.items:
                    defined = self._expr(it.context_expr, defined, meth, depth)
                defined = self._block(st.body, defined, meth, depth)
            elif isinstance(st, ast.Try):
                self._block(st.body, defined, meth, depth)
                for h in st.handlers:
                    self._block(h.body, defined, meth, depth)
                self._block(st.orelse, defined, meth, depth)
                defined = self._block(st.finalbody, defined, meth, depth)
            elif isinstance(st, (ast.Assign, ast.AnnAssign, ast.AugAssign)):
                if st.value is not None:
                    defined = self._expr(st.value, defined, meth, depth)
                tgts = st.targets if isinstance(st, ast.Assign) else [st.target]
                if isinstance(st, ast.AugAssign) and _self_attr(st.target, self.attr) and meth is not None and not defined:
                    self.reads.append((meth, st.target))
                if not isinstance(st, ast.AugAssign) and any(_self_attr(t, self.attr) for t in tgts):
                    defined = True
            elif isinstance(st, (ast.Return, ast.Raise)):
                if getattr(st, "value", None) is not None:
                    defined = self._expr(st.value, defined, meth, depth)
                elif getattr(st, "exc", None) is not None:
                    defined = self._expr(st.exc, defined, meth, depth)
                return True if isinstance(st, ast.Raise) else defined   # nothing after it on this path
            else:
                for child in ast.iter_child_nodes(st):
                    if isinstance(child, ast.expr):
                        defined = self._expr(child, defined, meth, depth)
        return defined

    def run(self):
        for name, fn in self.methods.items():
            if name != "__init__":
                self._block(fn.body, False, name, 4)


def _item_state_attrs(methods: Dict[str, ast.FunctionDef]):
    """Attributes used as per-item scalar state: every write is a plain assignment, at least one write
    happens outside __init__ and every value written outside __init__ is a literal constant."""
    writes: Dict[str, List[Tuple[str, ast.AST, str]]] = {}
    for name, fn in methods.items():
        for a, node, how in _self_mutations(fn):
            writes.setdefault(a, []).append((name, node, how))
    out = {}
    for a, ws in writes.items():
        outside = [w for w in ws if w[0] != "__init__"]
        if not outside or any(w[2] != "assign" for w in ws):
            continue
        vals = []
        for _, node, _ in outside:
            st = parent(node)
            while st is not None and not isinstance(st, (ast.Assign, ast.AnnAssign)):
                st = parent(st) if isinstance(st, (ast.Tuple, ast.List, ast.Starred)) else None
            vals.append(st.value if st is not None and not isinstance(parent(node), (ast.Tuple, ast.List)) else None)
        if all(isinstance(v, ast.Constant) for v in vals):
            out[a] = outside
    return out


def _check_item_state(methods: Dict[str, ast.FunctionDef]):
    """[(attr, reader method, node, reason)] for per-item scalar state read where an earlier item's value may
    still be there."""
    bad = []
    attrs = _item_state_attrs(methods)
    for a in sorted(attrs):
        md = _MustDef(methods, a)
        md.run()
        entry_ok: Dict[str, bool] = {}

        def defined_at_entry(m, depth=3):
            if m in entry_ok:
                return entry_ok[m]
            entry_ok[m] = False
            sites = md.calls.get(m, [])
            if sites and depth > 0:
                entry_ok[m] = all(d or defined_at_entry(c, depth - 1) for c, d in sites)
            return entry_ok[m]
        for m, node in md.reads:
            if not defined_at_entry(m):
                bad.append((a, m, node))
    return attrs, bad


_ITEM_STATE_POSITIVE = '''
class W:
    def __init__(self):
        self.flag = False
    def methods(self, ms):
        self.flag = False
        for m in ms:
            if m == "serialize":
                self.flag = True
    def item(self, c):
        if c.methods:
            self.methods(c.methods)
        return self.flag
'''
_ITEM_STATE_NEGATIVE = _ITEM_STATE_POSITIVE.replace("        if c.methods:\n            self.methods(c.methods)", "        self.methods(c.methods)")


def rule_item_state_defined_before_use(ctx, rep: Report, rid="R7", packages=("gtwrap/",), min_classes=10):
    """Scalar state that a wrapper keeps on `self` and re-assigns while it works through declarations (a flag
    set while one class is wrapped) is assigned on every path before it is read: otherwise the value computed
    for an earlier declaration - or an earlier file / call - decides what is emitted for this one."""
    prog = ctx.prog
    # the rule's expected instance count on this code base is zero: prove on every run that it can fire
    for label, src, want in (("positive", _ITEM_STATE_POSITIVE, True), ("negative", _ITEM_STATE_NEGATIVE, False)):
        t = ast.parse(src)
        for p_ in ast.walk(t):
            for c_ in ast.iter_child_nodes(p_):
                c_._parent = p_
        ms = {f.name: f for f in t.body[0].body if isinstance(f, ast.FunctionDef)}
        attrs, bad = _check_item_state(ms)
        if bool(bad) != want or "flag" not in attrs:
            raise AnalysisError(f"{rep.prop}/{rid}: built-in {label} example is not decided as expected")
    n = 0
    for mi in sorted(prog.modules.values(), key=lambda m: m.rel):
        if not mi.rel.startswith(packages):
            continue
        for qual, ci in sorted(mi.classes.items()):
            methods: Dict[str, ast.FunctionDef] = {}
            for k in prog.mro(ci):
                for name, fn in k.methods.items():
                    methods.setdefault(name, fn)
            if not methods:
                continue
            attrs, bad = _check_item_state(methods)
            n += 1
            flagged = {}
            for a, m, node in bad:
                flagged.setdefault(a, []).append((m, node))
            for a in sorted(attrs):
                sites = flagged.get(a, [])
                rep.add(rid, f"item-state:{ci.qual}.{a}:assigned on every path before it is read", not sites,
                        f"self.{a} is re-assigned while declarations are processed (" +
                        ", ".join(sorted({w[0] for w in attrs[a]})) + ") but " +
                        "; ".join(f"{m} reads it at line {node.lineno} on a path without a preceding assignment" for m, node in sites[:3]) +
                        ": the value left by the previous class / file / call is used",
                        f"{mi.rel}:{sites[0][1].lineno if sites else 0}", nontrivial=True)
            rep.add(rid, f"item-state:{ci.qual}:per-item scalar attributes analysed", True,
                    f"{len(attrs)} attribute(s) re-assigned outside __init__ with constant values", f"{mi.rel}:{ci.node.lineno}",
                    nontrivial=False)
    if n < min_classes:
        raise AnalysisError(f"{rep.prop}/{rid}: only {n} classes analysed")


def _validated_memo_return(prog, fn, ret, tparam, val_tests) -> bool:
    """`if K in self.M: return self.M[K]` is as good as the validated lookup when the only stores into self.M in
    this function are `self.M[K] = <result>` made after the rejections, and K identifies the typename completely
    (it is computed from the namespace qualifiers as well as the name)."""
    v = ret.value
    if not (isinstance(v, ast.Subscript) and _self_attr(v.value)):
        return False
    memo, key = v.value.attr, inline_locals(fn, v.slice)
    ktxt = unparse(key)
    gs = guards_of(ret, fn, include_exits=True)
    if not any(pol and unparse(inline_locals(fn, ast.parse(t, mode="eval").body)).replace(" ", "") ==
               f"{ktxt}inself.{memo}".replace(" ", "") for t, pol in gs):
        return False
    stores = [n for n in walk_no_nested(fn) if isinstance(n, ast.Subscript) and isinstance(n.ctx, ast.Store) and _self_attr(n.value, memo)]
    if not stores:
        return False
    for st in stores:
        if unparse(inline_locals(fn, st.slice)) != ktxt:
            return False
        passed = {t for t, pol in guards_of(st, fn, include_exits=True) if not pol}
        if not val_tests <= passed:
            return False
    # the key covers the qualifiers
    if f"{tparam}.namespaces" in ktxt:
        return True
    tn = prog.cls("Typename")
    for c in ast.walk(key):
        if isinstance(c, ast.Call) and isinstance(c.func, ast.Attribute) and unparse(c.func.value) == tparam:
            m = prog.find_method(tn, c.func.attr)
            if m is not None and any(_self_attr(x, "namespaces") for x in ast.walk(m[1])):
                return True
    return False


def rule_arity_validated(ctx, rep: Report, rid="V6"):
    """InstantiatedClass.__init__ rejects an instantiation whose number of arguments differs from the template's number
    of parameters: the assertion compares len(<template>.typenames) with the length of the *instantiations handed to
    the constructor* - not with another attribute of the template (which has one list per parameter by construction,
    so that comparison can never fail and `typedef Pair<double,int,int> P;` would be accepted)."""
    prog = ctx.prog
    ci = prog.cls("InstantiatedClass")
    fn = prog.method("InstantiatedClass", "__init__")
    ps = func_params(fn)
    inst_p = next((p for p in ps if p == "instantiations"), ps[2] if len(ps) > 2 else None)
    orig_p = ps[1]
    hits = []
    for a in walk_no_nested(fn):
        if not (isinstance(a, ast.Assert) and isinstance(a.test, ast.Compare) and len(a.test.ops) == 1 and isinstance(a.test.ops[0], ast.Eq)):
            continue
        sides = [a.test.left, a.test.comparators[0]]
        lens = [inline_locals(fn, x.args[0]) for x in sides if isinstance(x, ast.Call) and unparse(x.func) == "len" and len(x.args) == 1]
        if len(lens) != 2:
            continue
        # `X if <template> else []` under the same `if <template>:` is X
        lens = [x.body if isinstance(x, ast.IfExp) and isinstance(x.orelse, (ast.List, ast.Tuple)) and not x.orelse.elts else x for x in lens]
        lens = [inline_locals(fn, x) for x in lens]
        txt = sorted(unparse(x).replace("self.original", orig_p) for x in lens)
        hits.append((a, txt))
    want = sorted([inst_p, f"{orig_p}.template.typenames"])
    good = [h for h in hits if h[1] == want]
    rep.add(rid, "validation:InstantiatedClass.__init__:number of template arguments equals number of template parameters", bool(good),
            f"length comparisons asserted: {[h[1] for h in hits]}; wanted len({want[0]}) == len({want[1]}): a typedef / instantiation "
            f"with a surplus or missing template argument is accepted and half-used", f"{ci.mod.rel}:{fn.lineno}")
    for a, _ in good:
        gs = [t for t, pol in guards_of(a, fn, include_exits=False) if pol]
        rep.add(rid, "validation:InstantiatedClass.__init__:arity check applies to every templated class",
                all("template" in g for g in gs) and len(gs) <= 1, f"guards {gs}", f"{ci.mod.rel}:{a.lineno}", nontrivial=False)


def rule_lookup_validated(ctx, rep: Report, rid="V6"):
    """Namespace.find_class_or_function (the resolution of a typedef's target): every result it returns has
    passed the 'exists' and the 'is unique' rejection, and the candidates are selected by the typename's
    namespace qualifiers *and* its name - a misspelt or deleted qualifier must end in the rejection."""
    prog = ctx.prog
    ci = prog.cls("Namespace")
    fn = prog.method("Namespace", "find_class_or_function")
    tparam = func_params(fn)[1] if len(func_params(fn)) > 1 else None
    if tparam is None:
        raise AnalysisError("Namespace.find_class_or_function: typename parameter not found")
    raises = [n for n in walk_no_nested(fn) if isinstance(n, ast.Raise)]
    tests = []
    for r in raises:
        g = enclosing(r, ast.If)
        if g is not None and r in g.body:
            tests.append((r, g.test))

    def kind(t):
        s = unparse(t).replace(" ", "")
        if isinstance(t, ast.UnaryOp) and isinstance(t.op, ast.Not):
            return "empty", unparse(t.operand)
        if isinstance(t, ast.Compare) and isinstance(t.left, ast.Call) and unparse(t.left.func) == "len" and len(t.ops) == 1:
            c = t.comparators[0]
            if isinstance(c, ast.Constant):
                if (isinstance(t.ops[0], ast.Eq) and c.value == 0) or (isinstance(t.ops[0], ast.Lt) and c.value == 1):
                    return "empty", unparse(t.left.args[0])
                if (isinstance(t.ops[0], ast.Gt) and c.value == 1) or (isinstance(t.ops[0], ast.GtE) and c.value == 2) \
                        or (isinstance(t.ops[0], ast.NotEq) and c.value == 1):
                    return "many", unparse(t.left.args[0])
        return None, s
    kinds = {}
    for r, t in tests:
        k, v = kind(t)
        if k:
            kinds.setdefault(k, []).append((r, t, v))
    loc = f"{ci.mod.rel}:{fn.lineno}"
    rep.add(rid, "lookup:find_class_or_function:rejects a typename that names nothing", "empty" in kinds,
            "no `raise` guarded by the emptiness of the candidate list", loc)
    rep.add(rid, "lookup:find_class_or_function:rejects an ambiguous typename", "many" in kinds,
            "no `raise` guarded by more than one candidate", loc)
    if "empty" not in kinds:
        return
    cand = kinds["empty"][0][2]
    # every return has passed both rejections
    val_tests = {unparse(t) for k in kinds.values() for _, t, _ in k}
    for r in [n for n in walk_no_nested(fn) if isinstance(n, ast.Return)]:
        gs = guards_of(r, fn, include_exits=True)
        passed = {t for t, pol in gs if not pol}
        ok = val_tests <= passed or _validated_memo_return(prog, fn, r, tparam, val_tests)
        rep.add(rid, f"lookup:find_class_or_function:return {unparse(r.value)[:30] if r.value else ''}:only after the rejections",
                ok, f"this return is reached under {[(t, pol) for t, pol in gs]} without passing {sorted(val_tests - passed)}: a "
                "typename that names nothing in this module (misspelt / deleted qualifier) gets a declaration anyway instead of the "
                "'Cannot find class' rejection", f"{ci.mod.rel}:{r.lineno}")
    # the candidate list is selected by qualifiers and by name
    src = unparse(fn)
    uses_ns = any(isinstance(c, ast.Call) and any(unparse(a) == f"{tparam}.namespaces" for a in c.args) for c in ast.walk(fn))
    name_filters = [c for c in ast.walk(fn) if isinstance(c, ast.Compare) and len(c.ops) == 1 and isinstance(c.ops[0], ast.Eq)
                    and f"{tparam}.name" in (unparse(c.left), unparse(c.comparators[0]))]
    rep.add(rid, "lookup:find_class_or_function:candidates selected by the typename's namespaces and name", uses_ns and bool(name_filters),
            f"namespaces used: {uses_ns}; name comparisons: {len(name_filters)}", loc)
    # the candidate list is built in this call only (no state kept between lookups can add to it)
    adds = [n for n in walk_no_nested(fn) if (isinstance(n, ast.AugAssign) and unparse(n.target) == cand) or
            (isinstance(n, ast.Call) and isinstance(n.func, ast.Attribute) and unparse(n.func.value) == cand and n.func.attr in MUTATORS)]
    inits = [n for n in walk_no_nested(fn) if isinstance(n, ast.Assign) and unparse(n.targets[0]) == cand]
    rep.add(rid, "lookup:find_class_or_function:candidate list starts empty in every call", len(inits) >= 1 and all(
        isinstance(i.value, (ast.List, ast.ListComp)) for i in inits), f"{len(inits)} initialisation(s), {len(adds)} addition(s)", loc,
        nontrivial=False)


# ------------------------------------------------------------------------------------------
# memo tables: the key determines the value
def _param_paths(prog, mi, fn, e: ast.AST, params: Set[str], skip: Set[int]) -> Set[str]:
    """Access paths rooted at a parameter that evaluating e reads: 'p' (the whole object), 'p.a', 'p.a.b'.
    A method call p.m() reads what m reads of its receiver when m can be resolved through p's annotation,
    otherwise the whole object."""
    out: Set[str] = set()
    ann = {a.arg: a.annotation for a in fn.args.args + fn.args.kwonlyargs}

    def chain(n):
        parts = []
        while isinstance(n, ast.Attribute):
            parts.append(n.attr)
            n = n.value
        if isinstance(n, ast.Name) and n.id in params:
            return n.id, list(reversed(parts))
        return None, None

    def visit(n):
        if id(n) in skip:
            return
        if isinstance(n, (ast.Attribute, ast.Name)) and isinstance(getattr(n, "ctx", None), ast.Load):
            root, parts = chain(n)
            if root is not None:
                p = parent(n)
                if isinstance(p, ast.Call) and p.func is n and parts:
                    # method call on the path root.parts[:-1]
                    recv = ".".join([root] + parts[:-1])
                    reads = None
                    if len(parts) == 1:
                        cands = []
                        if ann.get(root) is not None:
                            ci = prog.resolve_class(ann[root], mi)
                            m = prog.find_method(ci, parts[0]) if ci is not None else None
                            cands = [m] if m is not None else []
                        if not cands:
                            # unannotated parameter: every class of the program that has a method of this name
                            cands = [(k, k.methods[parts[0]]) for ks in prog.classes.values() for k in ks if parts[0] in k.methods]
                        if cands:
                            reads = set()
                            for k, mfn in cands:
                                r_ = _receiver_reads(prog, k.mod, mfn, "self")
                                if r_ is None:
                                    reads = None
                                    break
                                reads |= {recv + "." + a for a in r_}
                    out.update(reads if reads is not None else {recv})
                    for a in p.args:
                        visit(a)
                    return
                out.add(".".join([root] + parts))
                return
        for c in ast.iter_child_nodes(n):
            visit(c)
    visit(e)
    return out


def _receiver_reads(prog, mi, fn, subject: str, depth: int = 2) -> Optional[Set[str]]:
    """Attributes of `subject` that fn reads; a bare use of the subject as argument of a module-level function is
    followed into that function; any other bare use means 'the whole object' (None)."""
    out: Set[str] = set()
    for x in ast.walk(fn):
        if isinstance(x, ast.Name) and x.id == subject and isinstance(x.ctx, ast.Load):
            p = parent(x)
            if isinstance(p, ast.Attribute) and p.value is x:
                out.add(p.attr)
                continue
            if isinstance(p, ast.Call) and x in p.args and isinstance(p.func, ast.Name) and depth > 0:
                callee = None
                for m2 in prog.modules.values():
                    if p.func.id in m2.functions:
                        callee = (m2, m2.functions[p.func.id])
                if callee is not None:
                    params = [a.arg for a in callee[1].args.args]
                    i = p.args.index(x)
                    if i < len(params):
                        r_ = _receiver_reads(prog, callee[0], callee[1], params[i], depth - 1)
                        if r_ is not None:
                            out |= r_
                            continue
            return None
    return out


def _memo_sites(prog, mi, ci, fn):
    """(table text, key expr, store node, instance-level?) for compute-once tables in fn: `T[K] = V` where the
    function also hands the table's entry (or V) back to its caller."""
    out = []
    stores = [n for n in walk_no_nested(fn) if isinstance(n, ast.Subscript) and isinstance(n.ctx, ast.Store)
              and isinstance(parent(n), ast.Assign)]
    rets = [r.value for r in walk_no_nested(fn) if isinstance(r, ast.Return) and r.value is not None]
    local = set(local_assignments(fn)) | set(func_params(fn))
    for st in stores:
        table = st.value
        ttxt = unparse(table)
        root = table
        while isinstance(root, ast.Attribute):
            root = root.value
        if isinstance(root, ast.Name) and root.id in local and root.id != "self":
            continue                      # a local table lives for one call only
        if not isinstance(table, (ast.Attribute, ast.Name)):
            continue
        val = parent(st).value
        handed_back = any(isinstance(r, ast.Subscript) and unparse(r.value) == ttxt for r in rets) or \
            any(unparse(r) == unparse(val) and not isinstance(val, ast.Constant) for r in rets) or \
            any(isinstance(r, ast.Call) and isinstance(r.func, ast.Attribute) and r.func.attr == "get" and unparse(r.func.value) == ttxt for r in rets)
        tested = any(isinstance(c, ast.Compare) and len(c.ops) == 1 and isinstance(c.ops[0], (ast.In, ast.NotIn))
                     and unparse(c.comparators[0]) == ttxt for c in ast.walk(fn)) or \
            any(isinstance(c, ast.Call) and isinstance(c.func, ast.Attribute) and c.func.attr in ("get", "setdefault")
                and unparse(c.func.value) == ttxt for c in ast.walk(fn))
        # a counter / accumulator updates its entry from the entry's previous value (`t[k] = t.get(k, -1) + 1`, `t[k] += 1`):
        # that is state, not a memo, and is judged by the state rules
        def reads_table_arith(v, depth=2) -> bool:
            if isinstance(v, ast.BinOp) and any((isinstance(x, (ast.Attribute, ast.Name)) and unparse(x) == ttxt) for x in ast.walk(v)):
                return True
            if isinstance(v, ast.Name) and depth > 0:
                return any(reads_table_arith(d.value, depth - 1) for d in walk_no_nested(fn)
                           if isinstance(d, ast.Assign) and len(d.targets) == 1 and isinstance(d.targets[0], ast.Name) and d.targets[0].id == v.id)
            return False
        updated_in_place = any(isinstance(a, ast.AugAssign) and isinstance(a.target, ast.Subscript) and unparse(a.target.value) == ttxt
                               for a in walk_no_nested(fn))          # `t[k] += 1` elsewhere in the function: a counter
        if handed_back and tested and not reads_table_arith(val) and not updated_in_place:
            out.append((ttxt, st.slice, st, _self_attr(table)))
    return out


def _check_memo(prog, mi, ci, fn):
    res = []
    for ttxt, key, st, inst in _memo_sites(prog, mi, ci, fn):
        params = set(func_params(fn))
        if inst:
            params.discard("self")        # an instance-level table is implicitly keyed by the instance
        keyx = inline_locals(fn, key)
        kpaths = _param_paths(prog, mi, fn, keyx, params, set())
        for c in ast.walk(keyx):          # id(p) names the whole object
            if isinstance(c, ast.Call) and unparse(c.func) == "id" and c.args and isinstance(c.args[0], ast.Name):
                kpaths.add(c.args[0].id)
        # everything the function reads of its parameters, outside key expressions and table accesses
        skip = set()
        ktxt = {unparse(key), unparse(keyx)}
        for n in ast.walk(fn):
            if isinstance(n, ast.expr) and unparse(n) in ktxt:
                skip.add(id(n))
            if isinstance(n, (ast.Attribute, ast.Name)) and unparse(n) == ttxt:
                skip.add(id(n))
        deps: Set[str] = set()
        for s_ in fn.body:
            deps |= _param_paths(prog, mi, fn, s_, params, skip)
        # locals that the key was computed from are not parameters; nothing to do
        uncovered = sorted(d for d in deps if not any(d == k or d.startswith(k + ".") for k in kpaths))
        res.append((ttxt, unparse(key), st, uncovered, sorted(kpaths)))
    return res


_MEMO_POSITIVE = '''
class M:
    def __init__(self):
        self._seen = {}
    def enums(self, namespace):
        if namespace.name not in self._seen:
            self._seen[namespace.name] = frozenset(m.name for m in namespace.content)
        return self._seen[namespace.name]
'''
_MEMO_NEGATIVE = _MEMO_POSITIVE.replace("namespace.name", "id(namespace)")


def rule_memo_key_complete(ctx, rep: Report, rid="R8", packages=("gtwrap/",), min_functions=100):
    """A table that a function fills once per key and answers from afterwards (a memo / cache) must be keyed by
    everything the stored value is computed from.  A key that is only a projection of the argument (its simple
    name, its unqualified spelling) makes a later, different argument with the same projection receive the first
    one's answer - the output then depends on what was processed earlier."""
    prog = ctx.prog
    for label, src, want in (("positive", _MEMO_POSITIVE, True), ("negative", _MEMO_NEGATIVE, False)):
        t = ast.parse(src)
        for p_ in ast.walk(t):
            for c_ in ast.iter_child_nodes(p_):
                c_._parent = p_
        f = t.body[0].body[1]
        got = _check_memo(prog, next(iter(prog.modules.values())), None, f)
        if len(got) != 1 or bool(got[0][3]) != want:
            raise AnalysisError(f"{rep.prop}/{rid}: built-in {label} example is not decided as expected ({got})")
    n = 0
    for mi in sorted(prog.modules.values(), key=lambda m: m.rel):
        if not mi.rel.startswith(packages):
            continue
        fns = [(None, name, f) for name, f in mi.functions.items()] + \
              [(c, f"{q}.{m}", f) for q, c in mi.classes.items() for m, f in c.methods.items()]
        for ci, name, fn in fns:
            n += 1
            for ttxt, ktxt, st, uncovered, kpaths in _check_memo(prog, mi, ci, fn):
                rep.add(rid, f"memo:{name}:{ttxt}[{ktxt}]:the key covers everything the stored value is computed from", not uncovered,
                        f"{name} answers from {ttxt} under the key `{ktxt}` (covers {kpaths}) but what it stores is computed from "
                        f"{uncovered} as well: a later argument with the same key and a different {uncovered[0] if uncovered else ''} "
                        f"gets the earlier answer", f"{mi.rel}:{st.lineno}")
    rep.add(rid, "memo:functions scanned for compute-once tables", True, f"{n} functions", "", nontrivial=False)
    if n < min_functions:
        raise AnalysisError(f"{rep.prop}/{rid}: only {n} functions scanned")


# ------------------------------------------------------------------------------------------
# locals assigned on every path before they are read
class _LocalMustDef:
    """Forward must-assignment analysis of one function's local names (a 'possibly undefined' check): reports loads
    of a local that is assigned somewhere in the function but not on every path that reaches the load."""

    def __init__(self, fn: ast.FunctionDef):
        self.fn = fn
        self.locals: Set[str] = set()
        for n in walk_no_nested(fn):
            if isinstance(n, ast.Name) and isinstance(n.ctx, (ast.Store, ast.Del)):
                self.locals.add(n.id)
            elif isinstance(n, (ast.FunctionDef, ast.ClassDef)) and n is not fn:
                self.locals.add(n.name)
            elif isinstance(n, (ast.Import, ast.ImportFrom)):
                for a in n.names:
                    self.locals.add((a.asname or a.name).split(".")[0])
        glob = {x for n in walk_no_nested(fn) if isinstance(n, (ast.Global, ast.Nonlocal)) for x in n.names}
        self.locals -= glob
        self.params = set(a.arg for a in fn.args.args + fn.args.kwonlyargs + fn.args.posonlyargs)
        if fn.args.vararg:
            self.params.add(fn.args.vararg.arg)
        if fn.args.kwarg:
            self.params.add(fn.args.kwarg.arg)
        self.bad: List[Tuple[str, ast.AST]] = []

    def loads(self, e, defined: Set[str]):
        if e is None:
            return
        comp_bound: Set[str] = set()
        for n in ast.walk(e):
            if isinstance(n, ast.comprehension):
                comp_bound |= {x.id for x in ast.walk(n.target) if isinstance(x, ast.Name)}
            if isinstance(n, ast.Lambda):
                comp_bound |= {a.arg for a in n.args.args}
            if isinstance(n, ast.NamedExpr) and isinstance(n.target, ast.Name):
                comp_bound.add(n.target.id)
        for n in ast.walk(e):
            if isinstance(n, ast.Name) and isinstance(n.ctx, ast.Load) and n.id in self.locals and n.id not in defined \
                    and n.id not in self.params and n.id not in comp_bound:
                self.bad.append((n.id, n))

    def targets(self, t) -> Set[str]:
        return {x.id for x in ast.walk(t) if isinstance(x, ast.Name) and isinstance(x.ctx, ast.Store)}

    def block(self, stmts, defined: Set[str]) -> Tuple[Set[str], bool]:
        """-> (names defined after the block, block always leaves the function / loop iteration)"""
        d = set(defined)
        for st in stmts:
            if isinstance(st, (ast.FunctionDef, ast.AsyncFunctionDef, ast.ClassDef)):
                d.add(st.name)
                continue
            if isinstance(st, (ast.Import, ast.ImportFrom)):
                d |= {(a.asname or a.name).split(".")[0] for a in st.names}
                continue
            if isinstance(st, ast.If):
                self.loads(st.test, d)
                a, ea = self.block(st.body, d)
                b, eb = self.block(st.orelse, d)
                if ea and eb:
                    return d | a | b, True
                d = (b if ea else a if eb else (a & b))
                continue
            if isinstance(st, (ast.For, ast.AsyncFor)):
                self.loads(st.iter, d)
                inner = d | self.targets(st.target)
                self.block(st.body, inner)
                self.block(st.orelse, d)
                continue
            if isinstance(st, ast.While):
                self.loads(st.test, d)
                always = isinstance(st.test, ast.Constant) and st.test.value is True
                a, _ = self.block(st.body, d)
                if always:
                    d = a
                continue
            if isinstance(st, (ast.With, ast.AsyncWith)):
                for it in st.items:
                    self.loads(it.context_expr, d)
                    if it.optional_vars is not None:
                        d |= self.targets(it.optional_vars)
                d, e_ = self.block(st.body, d)
                if e_:
                    return d, True
                continue
            if isinstance(st, ast.Try):
                a, ea = self.block(st.body, d)
                hs = []
                for h in st.handlers:
                    hd = set(d)
                    if h.name:
                        hd.add(h.name)
                    hs.append(self.block(h.body, hd))
                o, eo = self.block(st.orelse, a)
                outs = [] if (ea or eo) else [o]
                outs += [x for x, e_ in hs if not e_]
                d2 = set.intersection(*outs) if outs else (d | a)
                d, ef = self.block(st.finalbody, d2)
                if ef or not outs:
                    return d, True
                continue
            if isinstance(st, (ast.Return, ast.Raise)):
                self.loads(getattr(st, "value", None) or getattr(st, "exc", None), d)
                return d, True
            if isinstance(st, (ast.Continue, ast.Break)):
                return d, True
            if isinstance(st, ast.Assign):
                self.loads(st.value, d)
                for t in st.targets:
                    for sub in ast.walk(t):
                        if isinstance(sub, (ast.Subscript, ast.Attribute)):
                            self.loads(sub.value, d)
                            if isinstance(sub, ast.Subscript):
                                self.loads(sub.slice, d)
                    d |= self.targets(t)
                continue
            if isinstance(st, ast.AnnAssign):
                self.loads(st.value, d)
                if st.value is not None:
                    d |= self.targets(st.target)
                continue
            if isinstance(st, ast.AugAssign):
                self.loads(st.value, d)
                if isinstance(st.target, ast.Name):
                    if st.target.id in self.locals and st.target.id not in d and st.target.id not in self.params:
                        self.bad.append((st.target.id, st.target))
                else:
                    self.loads(st.target, d)
                continue
            if isinstance(st, ast.Delete):
                continue
            if isinstance(st, ast.Assert):
                self.loads(st.test, d)
                continue
            for child in ast.iter_child_nodes(st):
                if isinstance(child, ast.expr):
                    self.loads(child, d)
        return d, False


def _module_names(mi) -> Set[str]:
    out: Set[str] = set()
    for st in ast.walk(mi.tree):
        if isinstance(st, (ast.Import, ast.ImportFrom)):
            for a in st.names:
                if a.name == "*":
                    out.add("*")
                out.add((a.asname or a.name).split(".")[0])
    for st in mi.tree.body:
        for x in ast.walk(st) if not isinstance(st, (ast.FunctionDef, ast.ClassDef)) else [st]:
            if isinstance(x, ast.Name) and isinstance(x.ctx, ast.Store):
                out.add(x.id)
            elif isinstance(x, (ast.FunctionDef, ast.ClassDef)):
                out.add(x.name)
    return out


_UNDEF_POSITIVE = '''
def f(xs):
    if len(xs) > 1:
        index = 0
        key = xs[0]
    return index
'''
_UNDEF_NEGATIVE = _UNDEF_POSITIVE.replace("    if len(xs) > 1:\n        index = 0", "    index = 0\n    if len(xs) > 1:\n        index = 1")


# Instances on the pinned tree, each confirmed by reading the code: the path on which the variable would be unassigned
# cannot be taken (or ends in a rejection, which is what the properties ask for).  Keyed by (function, variable).
LOCALS_DEFINED_ACCEPTED = {
    # (function, ordinal of the possibly-unassigned local in that function): (name on the pinned tree, reason)
    ("MatlabWrapper.wrap_class_methods", 1):
        ("class_name", "assigned in the loop over the overloads of one method group; _group_methods never creates an empty group"),
    ("MatlabWrapper.wrap_static_methods", 1):
        ("static_overload", "loop variable of the loop over one group of static overloads, read after the loop; groups are never empty"),
    ("PybindWrapper._wrap_dunder", 1):
        ("function_call", "if/elif over the three supported dunder names without else: any other `__name__` ends in UnboundLocalError, "
                          "i.e. the input is rejected (C07 asks for a failure, not for a particular exception type)"),
}


def rule_locals_defined(ctx, rep: Report, rid="U1", packages=("gtwrap/",), min_functions=20):
    """No function reads a local variable on a path on which it has not been assigned (UnboundLocalError /
    NameError at run time): the generator must produce its output - or a clean rejection - for every input, not a
    crash for the inputs that take the unusual path."""
    for label, src, want in (("positive", _UNDEF_POSITIVE, True), ("negative", _UNDEF_NEGATIVE, False)):
        t = ast.parse(src)
        for p_ in ast.walk(t):
            for c_ in ast.iter_child_nodes(p_):
                c_._parent = p_
        a = _LocalMustDef(t.body[0])
        a.block(t.body[0].body, set())
        if bool(a.bad) != want:
            raise AnalysisError(f"{rep.prop}/{rid}: built-in {label} example is not decided as expected")
    prog = ctx.prog
    n = 0
    for mi in sorted(prog.modules.values(), key=lambda m: m.rel):
        if not mi.rel.startswith(packages):
            continue
        fns = [(name, f) for name, f in mi.functions.items()] + [(f"{q}.{m}", f) for q, c in mi.classes.items() for m, f in c.methods.items()]
        for name, fn in sorted(fns, key=lambda x: x[0]):
            stack = [(name, fn)]
            while stack:
                nm, f = stack.pop()
                n += 1
                a = _LocalMustDef(f)
                a.block(f.body, set())
                seen = set()
                for var, node in a.bad:
                    if var in seen:
                        continue
                    seen.add(var)
                    ordinal = len(seen)
                    acc = LOCALS_DEFINED_ACCEPTED.get((nm, ordinal))
                    if acc is not None:
                        rep.add(rid, f"defined-before-use:{nm}:#{ordinal}", True, f"accepted (confirmed by reading), `{var}`: " + acc[1],
                                f"{mi.rel}:{node.lineno}", nontrivial=False)
                        continue
                    rep.add(rid, f"defined-before-use:{nm}:#{ordinal}", False,
                            f"`{var}` is read at line {node.lineno} on a path on which it has not been assigned (it is assigned only in a "
                            f"branch / loop that may be skipped): UnboundLocalError for the inputs that take that path",
                            f"{mi.rel}:{node.lineno}")
                # names that are bound nowhere: not a local, a parameter, a module-level name or a builtin (NameError)
                import builtins
                bound_here = set(a.locals) | a.params
                for sub in ast.walk(f):
                    if isinstance(sub, (ast.FunctionDef, ast.Lambda)) and sub is not f:
                        bound_here |= {x.arg for x in sub.args.args + sub.args.kwonlyargs}
                        if sub.args.vararg:
                            bound_here.add(sub.args.vararg.arg)
                        if sub.args.kwarg:
                            bound_here.add(sub.args.kwarg.arg)
                    if isinstance(sub, ast.Name) and isinstance(sub.ctx, ast.Store):
                        bound_here.add(sub.id)
                    if isinstance(sub, ast.ExceptHandler) and sub.name:
                        bound_here.add(sub.name)
                    if isinstance(sub, (ast.FunctionDef, ast.ClassDef)):
                        bound_here.add(sub.name)
                modnames = _module_names(mi)
                cls_ = enclosing(f, ast.ClassDef)
                in_annotation = set()
                for sub in ast.walk(f):
                    anns = []
                    if isinstance(sub, ast.FunctionDef):
                        anns = [a_.annotation for a_ in sub.args.args + sub.args.kwonlyargs if a_.annotation is not None] + ([sub.returns] if sub.returns else [])
                    elif isinstance(sub, ast.AnnAssign):
                        anns = [sub.annotation]
                    for an in anns:
                        in_annotation |= {id(x) for x in ast.walk(an)}
                class_level = set()
                k_ = cls_
                while k_ is not None:
                    class_level |= {st.name for st in k_.body if isinstance(st, (ast.ClassDef, ast.FunctionDef))}
                    class_level.add(k_.name)
                    k_ = enclosing(k_, ast.ClassDef)
                unbound = sorted({x.id for x in ast.walk(f) if isinstance(x, ast.Name) and isinstance(x.ctx, ast.Load)
                                  and x.id not in bound_here and x.id not in modnames and not hasattr(builtins, x.id)
                                  and x.id not in ("__file__", "__name__", "__doc__", "__class__", "__package__", "__spec__")
                                  and not (id(x) in in_annotation and x.id in class_level)
                                  and "*" not in modnames})
                for var in unbound:
                    node = next(x for x in ast.walk(f) if isinstance(x, ast.Name) and x.id == var)
                    rep.add(rid, f"defined-before-use:{nm}:{var}", False,
                            f"`{var}` (line {node.lineno}) is bound nowhere - not in this function, not at module level, not a builtin: NameError "
                            f"as soon as the statement runs", f"{mi.rel}:{node.lineno}")
    rep.add(rid, "defined-before-use:functions analysed", True, f"{n} functions", "", nontrivial=False)
    if n < min_functions:
        raise AnalysisError(f"{rep.prop}/{rid}: only {n} functions analysed")
    # attributes: every `self.X` that a method reads is stored by some method of the class, one of its bases or one of
    # its subclasses (mixins read what the final class stores), or is a class-level name (AttributeError otherwise)
    all_classes = [ci for mi in prog.modules.values() for ci in mi.classes.values()]

    def stored(ci):
        s = set()
        for x in ast.walk(ci.node):
            if isinstance(x, ast.Attribute) and isinstance(x.ctx, ast.Store) and isinstance(x.value, ast.Name) and x.value.id == "self":
                s.add(x.attr)
            if isinstance(x, ast.Call) and unparse(x.func) == "setattr" and x.args and unparse(x.args[0]) == "self":
                s.add("*")
        for st in ci.node.body:
            if isinstance(st, (ast.FunctionDef, ast.ClassDef)):
                s.add(st.name)
            elif isinstance(st, ast.Assign):
                s |= {t.id for t in st.targets if isinstance(t, ast.Name)}
            elif isinstance(st, ast.AnnAssign) and isinstance(st.target, ast.Name):
                s.add(st.target.id)
        return s
    for mi in sorted(prog.modules.values(), key=lambda m: m.rel):
        if not mi.rel.startswith(packages):
            continue
        for q, ci in sorted(mi.classes.items()):
            known = set()
            opaque = False
            for k in prog.mro(ci):
                known |= stored(k)
                opaque |= any(prog.resolve_class(b, k.mod) is None and unparse(b) != "object" for b in k.node.bases)
            for other in all_classes:
                if other is not ci and prog.is_subclass(other, ci):
                    for k in prog.mro(other):
                        known |= stored(k)
            if opaque or "*" in known:
                continue
            missing = {}
            for x in ast.walk(ci.node):
                if isinstance(x, ast.Attribute) and isinstance(x.ctx, ast.Load) and isinstance(x.value, ast.Name) and x.value.id == "self" \
                        and x.attr not in known and not (x.attr.startswith("__") and x.attr.endswith("__")):
                    missing.setdefault(x.attr, x)
            rep.add(rid, f"attributes-initialised:{q}", not missing,
                    f"{sorted(missing)} read through `self` but stored by no method of the class, its bases or its subclasses "
                    f"(e.g. the initialisation was dropped from __init__): AttributeError on the first input that reaches the read",
                    f"{mi.rel}:{min((x.lineno for x in missing.values()), default=ci.node.lineno)}", nontrivial=bool(missing))
    rule_no_object_rebound_to_text(ctx, rep, rid, packages=packages, min_functions=0)


def _path_lookup_by_evaluation(fn) -> Optional[List[str]]:
    """Runs find_sub_namespace (the analyser's own interpreter) on a sample namespace tree for paths of length 0 to 3 and
    compares with what the path denotes; the list of differences, or None when the function cannot be evaluated."""
    from .rules_matlab import SampleObj, _PathEval, _Raised, mini_exec
    ps = func_params(fn)

    def ns(name, *content):
        return SampleObj(__kind__="Namespace", name=name, content=list(content), label=name)

    def cls(name):
        return SampleObj(__kind__="Class", name=name, content=[], label=name)
    a1 = ns("a", cls("b"), ns("b", ns("c", cls("K")), cls("c")), cls("K"))
    a2 = ns("a", ns("b"), ns("d"))
    c1 = ns("c", ns("c", ns("c", cls("K"))), ns("b"))
    b1 = ns("b", ns("c"))
    root = ns("", a1, cls("a"), c1, a2, b1)

    def spec(node, path):
        if not path:
            return [node]
        out = []
        for ch in node["content"]:
            if ch.get("__kind__") == "Namespace" and ch["name"] == path[0]:
                out += spec(ch, path[1:])
        return out
    diffs = []
    try:
        for path in ([], ["a"], ["b"], ["c"], ["x"], ["a", "b"], ["c", "c"], ["a", "d"], ["b", "c"], ["a", "b", "c"], ["c", "c", "c"], ["a", "c"], ["c", "b", "c"]):
            got = mini_exec(fn, {ps[0]: root, ps[1]: list(path)}, budget=8000, functions={fn.name: fn})
            got = list(got) if got is not None else None
            want = spec(root, path)
            if got is None or len(got) != len(want) or any(x is not y for x, y in zip(got, want)):
                diffs.append(f"{'::'.join(path) or '(empty path)'} gives {len(got) if got is not None else 'nothing'} namespace(s), {len(want)} expected")
    except (_PathEval.Unknown, _Raised, TypeError):
        return None
    return diffs


def rule_namespace_path_lookup(ctx, rep: Report, rid="V6"):
    """find_sub_namespace(namespace, path) - the walk that typedef resolution and class lookup rely on - returns the
    namespace itself for the empty path, considers *every* nested namespace whose name equals the first component
    (a namespace may be opened more than once), descends with exactly the remaining components and collects the
    results of all of them.  Stopping at the first match loses the later blocks of a re-opened namespace; skipping a
    component resolves a::b::c::X in the wrong scope."""
    prog = ctx.prog
    mi = prog.module("gtwrap/interface_parser/namespace.py")
    fn = mi.functions.get("find_sub_namespace")
    if fn is None:
        raise AnalysisError("find_sub_namespace not found")
    ps = func_params(fn)
    nsp, pathp = ps[0], ps[1]
    loc = f"{mi.rel}:{fn.lineno}"
    # decided by evaluation where the function can be run on samples (however it is written: recursive, iterative, comprehensions)
    verdict = _path_lookup_by_evaluation(fn)
    if verdict is not None:
        rep.add(rid, "path lookup:find_sub_namespace:returns exactly the namespaces the path denotes (every re-opened block, no other scope)", not verdict,
                f"on a sample tree (namespaces a{{b{{c}}}} a{{b{{}}}} c{{c{{c}}}} b{{}}): {verdict[:3]}: a typedef or lookup through such a path is resolved in the wrong "
                f"scope, or a legal one is rejected ('Cannot find class')", loc)
        return
    base = [i for i in fn.body if isinstance(i, ast.If) and unparse(i.test).replace(" ", "") in (f"not{pathp}", f"len({pathp})==0", f"{pathp}==[]")
            and len(i.body) == 1 and isinstance(i.body[0], ast.Return) and unparse(i.body[0].value).replace(" ", "") == f"[{nsp}]"]
    rep.add(rid, "path lookup:find_sub_namespace:the empty path denotes the namespace itself", len(base) == 1, "", loc, nontrivial=False)
    rec = [c for c in ast.walk(fn) if isinstance(c, ast.Call) and unparse(c.func) == fn.name]
    slices_ok = bool(rec) and all(len(c.args) == 2 and unparse(inline_locals(fn, c.args[1])).replace(" ", "") == f"{pathp}[1:]" for c in rec)
    rep.add(rid, "path lookup:find_sub_namespace:each level consumes exactly one component of the path", slices_ok,
            f"recursive calls {[unparse(c)[:60] for c in rec]}: the remaining path must be {pathp}[1:]", loc)
    heads = [c for c in ast.walk(fn) if isinstance(c, ast.Compare) and len(c.ops) == 1 and isinstance(c.ops[0], ast.Eq)
             and f"{pathp}[0]" in (unparse(inline_locals(fn, c.left)).replace(" ", ""), unparse(inline_locals(fn, c.comparators[0])).replace(" ", ""))]
    rep.add(rid, "path lookup:find_sub_namespace:candidates are the nested namespaces named like the first component", len(heads) == 1,
            f"{len(heads)} comparison(s) with {pathp}[0]", loc, nontrivial=False)
    # every candidate is explored: no return / break inside a loop over candidates, results accumulated
    early = []
    for c in rec:
        l = enclosing(c, ast.For)
        st = stmt_of(c)
        if isinstance(st, ast.Return) and l is not None:
            early.append(st)
        if l is not None:
            early += [x for x in ast.walk(l) if isinstance(x, (ast.Break,)) or (isinstance(x, ast.Return) and x is not st and enclosing(x, ast.For) is l)]
    picks_first = [x for x in ast.walk(fn) if (isinstance(x, ast.Call) and unparse(x.func) == "next") or
                   (isinstance(x, ast.Subscript) and isinstance(x.slice, ast.Constant) and x.slice.value == 0 and unparse(x.value) != pathp
                    and isinstance(x.ctx, ast.Load))]
    in_loop_or_comp = bool(rec) and all(enclosing(c, (ast.For, ast.ListComp, ast.GeneratorExp)) is not None for c in rec)
    rep.add(rid, "path lookup:find_sub_namespace:every matching namespace is searched and the results are collected", not early and not picks_first and in_loop_or_comp,
            f"early exits inside the candidate loop: {len(early)}, first-element picks: {len(picks_first)}, recursion per candidate: {in_loop_or_comp} - "
            f"with `namespace gtsam {{..}} namespace gtsam {{ template<T> class F{{}}; }}` only the first block is searched and a legal typedef "
            f"of gtsam::F is rejected ('Cannot find class')", loc)


def rule_directory_creation_tolerates_races(ctx, rep: Report, rid="R9", min_sites=2):
    """Several wrapper processes may create the same output folder at the same time (one build directory, parallel
    targets): every directory creation reachable from the entry points either passes `exist_ok=True` or sits in a
    `try` whose handler accepts OSError / FileExistsError.  A preceding `isdir` test does not help - the folder can
    appear between the test and the creation."""
    eff = effects_engine(ctx)
    prog = ctx.prog
    n = 0
    ordinal: Dict[str, int] = {}
    for mi in sorted(prog.modules.values(), key=lambda m: m.rel):
        if not mi.rel.startswith(("gtwrap/", "scripts/")):
            continue
        for c in ast.walk(mi.tree):
            if not (isinstance(c, ast.Call) and isinstance(c.func, ast.Attribute) and c.func.attr in ("mkdir", "makedirs")):
                continue
            n += 1
            exist_ok = any(k.arg == "exist_ok" and isinstance(k.value, ast.Constant) and k.value.value is True for k in c.keywords)
            handled = False
            p_ = parent(c)
            child = c
            while p_ is not None:
                if isinstance(p_, ast.Try) and child in p_.body:
                    for h in p_.handlers:
                        names = [] if h.type is None else ([unparse(e) for e in h.type.elts] if isinstance(h.type, ast.Tuple) else [unparse(h.type)])
                        if h.type is None or any(nm.split(".")[-1] in ("OSError", "FileExistsError", "EnvironmentError", "IOError", "Exception") for nm in names):
                            handled = True
                if isinstance(p_, ast.With) and child in p_.body:
                    # `with contextlib.suppress(OSError):` is the try / except OSError: pass of the same statement
                    for it_ in p_.items:
                        ce = it_.context_expr
                        if isinstance(ce, ast.Call) and (dotted(ce.func) or "").split(".")[-1] == "suppress" and any(
                                unparse(a).split(".")[-1] in ("OSError", "FileExistsError", "EnvironmentError", "IOError", "Exception") for a in ce.args):
                            handled = True
                child, p_ = p_, parent(p_)
            fn = enclosing(c, ast.FunctionDef)
            ordinal[fn.name if fn else "<module>"] = ordinal.get(fn.name if fn else "<module>", 0) + 1
            rep.add(rid, f"mkdir:{fn.name if fn else '<module>'}:#{ordinal[fn.name if fn else '<module>']}", exist_ok or handled,
                    f"`{unparse(c)[:70]}` fails with FileExistsError when another wrapper process creates the folder between the existence test "
                    f"and this call (no exist_ok=True, no handler for OSError): parallel targets in one build directory kill each other",
                    f"{mi.rel}:{c.lineno}")
    if n < min_sites:
        raise AnalysisError(f"{rep.prop}/{rid}: only {n} directory creations found ({min_sites} expected)")


_STR_METHODS = set(dir(str))


def rule_no_object_rebound_to_text(ctx, rep: Report, rid="U2", packages=("gtwrap/",), min_functions=20):
    """A name that holds a declaration object (a parameter, a loop variable) is not re-bound to a piece of text
    (`x = x.to_cpp()`, `x = str(x)`, an f-string) and afterwards used as the object again: an attribute read such as
    `x.return_type` after the re-binding raises AttributeError for exactly the inputs that take both the re-binding
    branch and the later use (a templated method that returns a pair, say)."""
    prog = ctx.prog
    n = 0
    for mi in sorted(prog.modules.values(), key=lambda m: m.rel):
        if not mi.rel.startswith(packages):
            continue
        fns = [(name, f) for name, f in mi.functions.items()] + [(f"{q}.{m}", f) for q, c in mi.classes.items() for m, f in c.methods.items()]
        for name, fn in sorted(fns, key=lambda x: x[0]):
            n += 1
            params = set(func_params(fn))
            for st in walk_no_nested(fn):
                if not (isinstance(st, ast.Assign) and len(st.targets) == 1 and isinstance(st.targets[0], ast.Name)):
                    continue
                v = st.targets[0].id
                val = st.value
                texty = isinstance(val, ast.JoinedStr) or (isinstance(val, ast.Constant) and isinstance(val.value, str)) or \
                    (isinstance(val, ast.Call) and ((isinstance(val.func, ast.Attribute) and val.func.attr in ("to_cpp", "format", "join", "instantiated_name",
                                                                                                            "qualified_name"))
                                                    or (isinstance(val.func, ast.Name) and val.func.id in ("str", "repr"))))
                # only a re-binding of a name that held the object: the value is computed from the name itself
                if not texty or not any(isinstance(x, ast.Name) and x.id == v for x in ast.walk(val)):
                    continue
                if v not in params and not any(isinstance(l, ast.For) and any(isinstance(x, ast.Name) and x.id == v for x in ast.walk(l.target))
                                               for l in walk_no_nested(fn)):
                    continue
                g_def = guards_of(st, fn, include_exits=False)
                later = []
                for x in walk_no_nested(fn):
                    if isinstance(x, ast.Attribute) and isinstance(x.value, ast.Name) and x.value.id == v and isinstance(x.ctx, ast.Load) \
                            and x.attr not in _STR_METHODS and (x.lineno, x.col_offset) > (st.end_lineno, st.end_col_offset):
                        g_use = guards_of(x, fn, include_exits=False)
                        exclusive = any((t, not pol) in g_use for t, pol in g_def)
                        if not exclusive:
                            later.append(x)
                rep.add(rid, f"object stays an object:{name}:#{sum(1 for o in rep.obs if o.rule == rid and o.construct.startswith(f'object stays an object:{name}:')) + 1}",
                        not later,
                        f"`{unparse(st)[:60]}` (line {st.lineno}) turns `{v}` into text, and line {later[0].lineno if later else 0} reads "
                        f"`{unparse(later[0]) if later else ''}` from it on a path that is not excluded by the guards: AttributeError: 'str' object has no "
                        f"attribute '{later[0].attr if later else ''}'", f"{mi.rel}:{st.lineno}")
    rep.add(rid, "object stays an object:functions analysed", True, f"{n} functions", "", nontrivial=False)
    if n < min_functions:
        raise AnalysisError(f"{rep.prop}/{rid}: only {n} functions analysed")


def _exclusive(a: ast.AST, b: ast.AST) -> bool:
    """The two nodes lie in different arms of a common if / conditional expression."""
    def arms(x):
        out = {}
        cur = x
        while True:
            p = parent(cur)
            if p is None:
                return out
            if isinstance(p, ast.If):
                out[id(p)] = "body" if cur in p.body else ("orelse" if cur in p.orelse else "test")
            elif isinstance(p, ast.IfExp):
                out[id(p)] = "body" if cur is p.body else ("orelse" if cur is p.orelse else "test")
            cur = p
    aa, bb = arms(a), arms(b)
    return any(k in bb and {aa[k], bb[k]} == {"body", "orelse"} for k in aa)


_FANOUT_POSITIVE = '''
class N:
    def text(self):
        if self.kids and all(k.text() for k in self.kids):
            return "<" + ",".join(k.text() for k in self.kids) + ">"
        return self.name
'''
_FANOUT_NEGATIVE = '''
class N:
    def text(self):
        if self.ptr:
            t = self.base.text() + "*"
        elif self.ref:
            t = self.base.text() + "&"
        else:
            t = self.base.text()
        return t + ",".join([k.text() for k in self.kids])
'''


def _recursive_fanout(fn: ast.FunctionDef) -> List[List[ast.Call]]:
    """Groups of two or more calls `<x>.<same method name>()` inside fn that can all execute in one activation and go to
    the same children (same receiver, or iteration variables over the same collection)."""
    calls = [c for c in walk_no_nested(fn) if isinstance(c, ast.Call) and isinstance(c.func, ast.Attribute) and c.func.attr == fn.name
             and not (isinstance(c.func.value, ast.Call) and unparse(c.func.value.func) == "super")]

    def source(c: ast.Call) -> str:
        r = c.func.value
        if isinstance(r, ast.Name):
            # iteration variable of a comprehension / loop: name the collection
            p = c
            while p is not None and p is not fn:
                if isinstance(p, (ast.ListComp, ast.GeneratorExp, ast.SetComp, ast.DictComp)):
                    for g in p.generators:
                        if any(isinstance(x, ast.Name) and x.id == r.id for x in ast.walk(g.target)):
                            return "each of " + unparse(g.iter)
                if isinstance(p, ast.For) and any(isinstance(x, ast.Name) and x.id == r.id for x in ast.walk(p.target)):
                    return "each of " + unparse(p.iter)
                p = parent(p)
        return unparse(r)
    groups: Dict[str, List[ast.Call]] = {}
    for c in calls:
        groups.setdefault(source(c), []).append(c)
    out = []
    for src, cs in groups.items():
        # largest set of pairwise non-exclusive calls (greedy is enough for the handful of sites involved)
        keep: List[ast.Call] = []
        for c in cs:
            if all(not _exclusive(c, k) for k in keep):
                keep.append(c)
        if len(keep) >= 2:
            out.append(keep)
    return out


def _parse_time_reach(ctx, rep, rid, package):
    """(methods by name, {qualified method: the method it was reached from}) for the methods of the package's classes that run while
    parsing: from the constructors / from_parse_result of classes with a `rule`, following calls by name, comparisons to __eq__ /
    __ne__ and str() / format / f-strings of non-text values to __repr__ / __str__."""
    prog = ctx.prog
    methods: Dict[str, List[Tuple[str, ast.FunctionDef, ModuleInfo]]] = {}
    starts = []
    for mi in prog.modules.values():
        if not mi.rel.startswith(package):
            continue
        for q, ci in mi.classes.items():
            for mname, fn in ci.methods.items():
                methods.setdefault(mname, []).append((f"{q}.{mname}", fn, mi))
                if mname in ("__init__", "from_parse_result") and any(isinstance(st, ast.Assign) and any(unparse(t) == "rule" for t in st.targets)
                                                                       for st in ci.node.body):
                    starts.append((f"{q}.{mname}", fn, mi))
    if len(starts) < 10:
        raise AnalysisError(f"{rep.prop}/{rid}: only {len(starts)} parse-action entry points found")

    def plain_text(e) -> bool:
        """Certainly a str / number: rendering it calls no method of the package."""
        if isinstance(e, (ast.Tuple, ast.List, ast.Set)):
            return all(isinstance(x, ast.Constant) for x in e.elts)
        return isinstance(e, ast.Constant) or (isinstance(e, ast.Attribute) and e.attr in ("name", "text")) or \
            (isinstance(e, ast.Call) and isinstance(e.func, ast.Name) and e.func.id in ("len", "int", "type"))

    def edges(fn) -> Set[str]:
        out: Set[str] = set()
        for x in walk_no_nested(fn):
            if enclosing(x, ast.Raise) is not None:
                continue          # building the message of an error: parsing stops there
            if isinstance(x, ast.Call):
                if isinstance(x.func, ast.Attribute):
                    out.add(x.func.attr)
                    if x.func.attr == "format" and not all(plain_text(a) for a in list(x.args) + [k.value for k in x.keywords]):
                        out |= {"__repr__", "__str__"}
                elif isinstance(x.func, ast.Name) and x.func.id in ("str", "repr") and not all(plain_text(a) for a in x.args):
                    out |= {"__repr__", "__str__"}
            elif isinstance(x, ast.JoinedStr) and not all(plain_text(v.value) for v in x.values if isinstance(v, ast.FormattedValue)):
                out |= {"__repr__", "__str__"}
            elif isinstance(x, ast.Attribute) and isinstance(x.ctx, ast.Load) and x.attr in methods and not (isinstance(parent(x), ast.Call) and parent(x).func is x) \
                    and any(any(unparse(d_) in ("property", "cached_property", "functools.cached_property") for d_ in f2.decorator_list) for _, f2, _ in methods[x.attr]):
                out.add(x.attr)                   # reading a property runs it
            elif isinstance(x, ast.Compare):
                sides = [x.left] + list(x.comparators)
                if any(isinstance(o, (ast.Eq, ast.NotEq, ast.In, ast.NotIn)) for o in x.ops) and not any(plain_text(s_) for s_ in sides):
                    out |= {"__eq__", "__ne__"}
        return out
    seen: Dict[str, Optional[str]] = {}
    work = []
    for q, fn, mi in starts:
        seen[q] = None
        work.append((q, fn, mi))
    while work:
        q, fn, mi = work.pop()
        for name in edges(fn):
            for q2, fn2, mi2 in methods.get(name, []):
                if q2 not in seen:
                    seen[q2] = q
                    work.append((q2, fn2, mi2))
    return methods, seen


def rule_render_once_per_child(ctx, rep: Report, rid="Z6", package="gtwrap/interface_parser"):
    """Work done on a parsed type while parsing stays linear in its nesting depth: a method that recurses structurally
    (`to_cpp` calling `to_cpp` of the template arguments, ...) calls itself at most once per child in one activation.
    Two calls on the same children (`all(x.to_cpp() for x in xs)` followed by `", ".join(x.to_cpp() for x in xs)`)
    double the work per level - 2^depth - and the rule reports it when such a method is reachable from a parse action
    (a node constructor / from_parse_result, following calls by name, comparisons to `__eq__` / `__ne__`, and
    str() / format / f-strings to `__repr__` / `__str__`)."""
    for label, src, want in (("positive", _FANOUT_POSITIVE, True), ("negative", _FANOUT_NEGATIVE, False)):
        t = ast.parse(src)
        for p_ in ast.walk(t):
            for c_ in ast.iter_child_nodes(p_):
                c_._parent = p_
        if bool(_recursive_fanout(t.body[0].body[0])) != want:
            raise AnalysisError(f"{rep.prop}/{rid}: built-in {label} example is not decided as expected")
    methods, seen = _parse_time_reach(ctx, rep, rid, package)
    n = 0
    for mname, lst in sorted(methods.items()):
        for q, fn, mi in sorted(lst, key=lambda x: x[0]):
            recursive = any(isinstance(c, ast.Call) and isinstance(c.func, ast.Attribute) and c.func.attr == fn.name
                            and not (isinstance(c.func.value, ast.Name) and c.func.value.id == "self") for c in walk_no_nested(fn))
            if not recursive:
                continue
            n += 1
            groups = _recursive_fanout(fn)
            reach = q in seen
            path = []
            cur = q
            while cur is not None and len(path) < 8:
                path.append(cur)
                cur = seen.get(cur)
            rep.add(rid, f"recursive method:{q}:at most one call per child", not (groups and reach),
                    f"{len(groups[0]) if groups else 0} calls of `{fn.name}` on {('`' + unparse(groups[0][0].func.value) + '`') if groups else ''} at lines "
                    f"{[c.lineno for c in groups[0]] if groups else []} execute in one activation: 2^depth calls for a type nested `depth` levels deep; "
                    f"reached while parsing through {' <- '.join(path)}", f"{mi.rel}:{fn.lineno}", nontrivial=bool(groups))
    if n < 4:
        raise AnalysisError(f"{rep.prop}/{rid}: only {n} structurally recursive methods found in {package}")


def rule_typedef_target_kinds(ctx, rep: Report, rid="V8"):
    """A typedef names a class template, a function template or a forward declaration.  instantiate_namespace dispatches on
    the kind of the element the name resolved to and has a branch for exactly these kinds; a target of any other kind
    (an enum, a variable, a namespace of that name) would fall through the chain and the typedef would vanish from the
    output without a word.  So either the look-up (Namespace.find_class_or_function) admits only candidates of kinds the
    dispatch handles, or the dispatch ends in a raising `else`."""
    prog = ctx.prog
    ins = prog.module("gtwrap/template_instantiator/namespace.py").functions.get("instantiate_namespace")
    ns_ci = prog.cls("Namespace")
    look = prog.find_method(ns_ci, "find_class_or_function")
    if ins is None or look is None:
        raise AnalysisError("instantiate_namespace / Namespace.find_class_or_function not found")

    def kinds_of(e) -> Set[str]:
        es = e.elts if isinstance(e, (ast.Tuple, ast.List)) else [e]
        return {unparse(x).split(".")[-1] for x in es}
    # the dispatch: the if/elif chain on the resolved element inside the typedef branch
    handled: Set[str] = set()
    raising_else = False
    chain_loc = ins.lineno
    for i in ast.walk(ins):
        if isinstance(i, ast.If) and isinstance(i.test, ast.Call) and unparse(i.test.func) == "isinstance" and "TypedefTemplateInstantiation" in unparse(i.test.args[1]):
            for j in i.body:
                cur = j
                while isinstance(cur, ast.If) and isinstance(cur.test, ast.Call) and unparse(cur.test.func) == "isinstance":
                    subj = unparse(cur.test.args[0])
                    if subj != unparse(i.test.args[0]):
                        handled |= kinds_of(cur.test.args[1])
                        chain_loc = cur.lineno
                    nxt = cur.orelse
                    if len(nxt) == 1 and isinstance(nxt[0], ast.If):
                        cur = nxt[0]
                    else:
                        raising_else = any(isinstance(x, ast.Raise) for s_ in nxt for x in ast.walk(s_))
                        cur = None
    # dispatch through a (kind, constructor) table
    if not handled:
        for t in ast.walk(ins):
            if isinstance(t, (ast.Dict,)):
                handled |= {unparse(k).split(".")[-1] for k in t.keys if k is not None and unparse(k).startswith("parser.")}
            if isinstance(t, (ast.Tuple, ast.List)) and t.elts and all(isinstance(x, ast.Tuple) and len(x.elts) == 2 and unparse(x.elts[0]).startswith("parser.") for x in t.elts):
                handled |= {unparse(x.elts[0]).split(".")[-1] for x in t.elts}
    if not handled:
        # ... or a module-level table walked by a loop in the function
        imod = prog.module("gtwrap/template_instantiator/namespace.py")
        tables = {st.targets[0].id: st.value for st in imod.tree.body if isinstance(st, ast.Assign) and len(st.targets) == 1
                  and isinstance(st.targets[0], ast.Name) and isinstance(st.value, (ast.Tuple, ast.List, ast.Dict))}
        for l in ast.walk(ins):
            if isinstance(l, ast.For) and isinstance(l.iter, (ast.Name, ast.Call)):
                nm = l.iter.id if isinstance(l.iter, ast.Name) else (unparse(l.iter.func.value) if isinstance(l.iter.func, ast.Attribute) else None)
                t = tables.get(nm)
                if isinstance(t, (ast.Tuple, ast.List)) and t.elts and all(isinstance(x, ast.Tuple) and len(x.elts) == 2 for x in t.elts):
                    handled |= {unparse(x.elts[0]).split(".")[-1] for x in t.elts if unparse(x.elts[0]).startswith("parser.")}
                    raising_else = any(isinstance(x, ast.Raise) for s_ in l.orelse for x in ast.walk(s_))
                    chain_loc = l.lineno
                elif isinstance(t, ast.Dict):
                    handled |= {unparse(k).split(".")[-1] for k in t.keys if k is not None and unparse(k).startswith("parser.")}
                    chain_loc = l.lineno
    if not handled:
        raise AnalysisError("instantiate_namespace: dispatch on the kind of a typedef's target not found")
    admitted: Optional[Set[str]] = None
    lf = look[1]
    lla = local_assignments(lf)
    for c in ast.walk(lf):
        if isinstance(c, ast.Call) and unparse(c.func) == "isinstance" and len(c.args) == 2 and isinstance(c.args[0], ast.Name):
            karg = c.args[1]
            if isinstance(karg, ast.Name):
                vs = [st.value for st in lla.get(karg.id, []) if isinstance(st, ast.Assign)]
                if len(vs) == 1:
                    karg = vs[0]
            comp = enclosing(c, (ast.GeneratorExp, ast.ListComp))
            loop = enclosing(c, ast.For)
            over_content = (comp is not None and any("content" in unparse(g.iter) for g in comp.generators)) or \
                (loop is not None and "content" in unparse(loop.iter))
            if over_content:
                admitted = (admitted or set()) | kinds_of(karg)
    ok = raising_else or (admitted is not None and admitted <= handled)
    rep.add(rid, "typedef target:every kind of element the look-up can return has a branch in instantiate_namespace (or the chain raises)", ok,
            f"look-up admits {sorted(admitted) if admitted is not None else 'elements of any kind (matched by name only)'}, the dispatch handles {sorted(handled)}"
            f"{' and raises otherwise' if raising_else else ' and has no else'}: `enum Kind {{A}}; typedef Kind<double> KD;` resolves to the enum, matches no branch, "
            f"and the typedef disappears from both generators' output instead of being rejected", f"{ins and 'gtwrap/template_instantiator/namespace.py'}:{chain_loc}")


def rule_universal_newlines(ctx, rep: Report, rid="L6", min_sites=2):
    """Interface text reaches the parser with its line breaks translated to `\\n`, whatever the file used (`\\r\\n`, a lone
    `\\r`): pyparsing's `//` comment ends at `\\n` only, so an untranslated `\\r` file loses everything after its first line
    comment.  Every file the generators open for reading is opened by the built-in text-mode `open` / `Path.open` /
    `read_text` with the default newline handling - not through `codecs.open` (binary underneath), a `b` mode,
    `read_bytes` or `newline=''`."""
    prog = ctx.prog
    n = 0
    for mi in sorted(prog.modules.values(), key=lambda m: m.rel):
        if not mi.rel.startswith(("gtwrap/", "scripts/")) or mi.rel.startswith("gtwrap/xml_parser"):
            continue
        for c in ast.walk(mi.tree):
            if not isinstance(c, ast.Call):
                continue
            name = dotted(c.func) or (c.func.attr if isinstance(c.func, ast.Attribute) else "")
            last = name.split(".")[-1]
            if last not in ("open", "read_text", "read_bytes"):
                continue
            mode = None
            if last == "open":
                margs = c.args[1:2] if name in ("open", "io.open", "codecs.open") else c.args[0:1]
                mode = margs[0] if margs else next((k.value for k in c.keywords if k.arg == "mode"), None)
                mv = mode.value if isinstance(mode, ast.Constant) else ("r" if mode is None else None)
                if mv is None or any(ch in mv for ch in "wax+"):
                    continue                # not a read
            n += 1
            why = []
            if name.startswith("codecs."):
                why.append("codecs.open reads the file in binary mode underneath: line breaks are not translated")
            if last == "read_bytes" or (last == "open" and isinstance(mode, ast.Constant) and "b" in str(mode.value)):
                why.append("binary read")
            nl = next((k.value for k in c.keywords if k.arg == "newline"), None)
            if nl is not None and not (isinstance(nl, ast.Constant) and nl.value is None):
                why.append(f"newline={unparse(nl)} switches the translation off")
            fn = enclosing(c, ast.FunctionDef)
            key = f"read:{fn.name if fn else '<module>'}:#{sum(1 for o in rep.obs if o.rule == rid and o.construct.startswith('read:' + (fn.name if fn else '<module>') + ':')) + 1}"
            rep.add(rid, key + ":line breaks translated (universal newlines)", not why,
                    f"`{unparse(c)[:60]}`: {'; '.join(why)}: a file with \\\\r\\\\n or \\\\r line breaks is parsed differently from its \\\\n twin", f"{mi.rel}:{c.lineno}")
    if n < min_sites:
        raise AnalysisError(f"{rep.prop}/{rid}: only {n} file reads found")


def rule_text_files_name_their_encoding(ctx, rep: Report, rid="R10", min_sites=6):
    """Every file the generators read or write as text names its encoding.  Without one Python uses the locale's
    preferred encoding: the same interface file then yields other bytes - or a UnicodeDecodeError - under another
    LANG / LC_ALL, so the output is not a function of the inputs and options alone."""
    prog = ctx.prog
    n = 0
    for mi in sorted(prog.modules.values(), key=lambda m: m.rel):
        if not mi.rel.startswith(("gtwrap/", "scripts/")) or mi.rel.startswith("gtwrap/xml_parser"):
            continue
        for c in ast.walk(mi.tree):
            if not isinstance(c, ast.Call):
                continue
            name = dotted(c.func) or (c.func.attr if isinstance(c.func, ast.Attribute) else "")
            last = name.split(".")[-1]
            if last not in ("open", "read_text", "write_text"):
                continue
            if last == "open":
                if name not in ("open", "io.open", "codecs.open") and not (isinstance(c.func, ast.Attribute) and c.func.attr == "open"):
                    continue
                margs = c.args[1:2] if name in ("open", "io.open", "codecs.open") else c.args[0:1]
                mode = margs[0] if margs else next((k.value for k in c.keywords if k.arg == "mode"), None)
                if isinstance(mode, ast.Constant) and "b" in str(mode.value):
                    continue                # binary: no decoding involved
                if name.startswith("os."):
                    continue
            enc = next((k.value for k in c.keywords if k.arg == "encoding"), None)
            if enc is None and name in ("open", "io.open") and len(c.args) >= 4:
                enc = c.args[3]
            if enc is None and name == "codecs.open" and len(c.args) >= 3:
                enc = c.args[2]
            if enc is None and last == "read_text" and c.args:
                enc = c.args[0]
            if enc is None and last == "write_text" and len(c.args) >= 2:
                enc = c.args[1]
            n += 1
            fn = enclosing(c, ast.FunctionDef)
            fname = fn.name if fn else "<module>"
            key = f"encoding:{fname}:#{sum(1 for o in rep.obs if o.rule == rid and o.construct.startswith('encoding:' + fname + ':')) + 1}"
            ok = enc is not None and not (isinstance(enc, ast.Constant) and enc.value is None)
            rep.add(rid, key + ":the encoding is named", ok,
                    f"`{unparse(c)[:70]}` decodes / encodes with the locale's preferred encoding: under LC_ALL=C (or a legacy code page) a non-ASCII "
                    f"character in an interface file or template raises UnicodeDecodeError or is written as other bytes", f"{mi.rel}:{c.lineno}")
    if n < min_sites:
        raise AnalysisError(f"{rep.prop}/{rid}: only {n} text-mode file operations found ({min_sites} expected)")


def rule_name_dispatch_rejects_unknown(ctx, rep: Report, rid="V9", package="gtwrap/", min_functions=100):
    """A chain `if x.name == 'a': ... elif x.name == 'b': ...` over the *name* of a declaration enumerates the names the
    generator understands; the grammar accepts any identifier there (`__anything__` is a dunder method).  What is not
    listed has to be rejected: the chain ends in an `else` that raises, or - the form on the pinned tree - every branch
    binds a local that is read after the chain and bound nowhere before it, so an unlisted name ends in
    UnboundLocalError before anything is written.  Pre-binding that local (or a catch-all else that emits something)
    turns the rejection into a silently half-wrapped declaration."""
    prog = ctx.prog
    scanned, n = 0, 0
    for mi in sorted(prog.modules.values(), key=lambda m: m.rel):
        if not mi.rel.startswith(package):
            continue
        for fn in [f for f in ast.walk(mi.tree) if isinstance(f, ast.FunctionDef)]:
            scanned += 1
            for i in walk_no_nested(fn):
                if not isinstance(i, ast.If):
                    continue
                p = parent(i)
                if isinstance(p, ast.If) and len(p.orelse) == 1 and p.orelse[0] is i:
                    continue
                branches, cur, tail = [], i, []
                while True:
                    branches.append(cur)
                    if len(cur.orelse) == 1 and isinstance(cur.orelse[0], ast.If):
                        cur = cur.orelse[0]
                        continue
                    tail = cur.orelse
                    break

                def subject(t):
                    if isinstance(t, ast.Compare) and len(t.ops) == 1 and isinstance(t.ops[0], ast.Eq) and isinstance(t.comparators[0], ast.Constant) \
                            and isinstance(t.comparators[0].value, str) and isinstance(t.left, ast.Attribute) and t.left.attr == "name":
                        return unparse(t.left)
                    return None
                subs = [subject(b.test) for b in branches]
                if len(branches) < 2 or not all(subs) or len(set(subs)) != 1:
                    continue
                n += 1
                names = [b.test.comparators[0].value for b in branches]
                raises = bool(tail) and any(isinstance(x, ast.Raise) for st in tail for x in ast.walk(st))
                # locals bound in every branch, read after the chain, never bound before it
                def bound(stmts):
                    return {t.id for st in stmts for x in ast.walk(st) if isinstance(x, (ast.Assign, ast.AnnAssign, ast.AugAssign))
                            for t in (x.targets if isinstance(x, ast.Assign) else [x.target]) if isinstance(t, ast.Name)}
                in_all = set.intersection(*[bound(b.body) for b in branches]) if branches else set()
                before = {x.id for x in walk_no_nested(fn) if isinstance(x, ast.Name) and isinstance(x.ctx, ast.Store) and x.lineno < i.lineno} | set(func_params(fn))
                after_reads = {x.id for x in walk_no_nested(fn) if isinstance(x, ast.Name) and isinstance(x.ctx, ast.Load) and x.lineno > (branches[-1].end_lineno or 0)}
                crash = sorted((in_all - before) & after_reads) if not tail else []
                ok = raises or bool(crash)
                rep.add(rid, f"name dispatch:{fn.name}:{subs[0]} in {names}:any other name is rejected", ok,
                        (f"rejected through the unbound local {crash}" if crash else "rejected by the else branch") if ok else
                        f"a declaration whose name is none of {names} falls through the chain and the function goes on (nothing raises, every local read "
                        f"afterwards is bound): the grammar accepts any identifier here, so a misspelt or unsupported name is half-wrapped instead of rejected",
                        f"{mi.rel}:{i.lineno}")
    rep.units["name_dispatch_chains"] = n
    if scanned < min_functions:
        raise AnalysisError(f"{rep.prop}/{rid}: only {scanned} functions scanned in {package}")


def rule_parent_walk_truthiness(ctx, rep: Report, rid="N9", package="gtwrap/"):
    """Walks up the `.parent` links stop at the root by testing the link's *truthiness* (`while ancestor and ancestor.name`;
    the root's parent is `''`).  That is a test for "there is a parent" only as long as every object that can be a parent is
    always truthy: a class that owns children (`child.parent = self`) and defines `__len__` or `__bool__` is falsy when it is
    empty, and the walk then stops below an empty namespace - the qualified name of everything declared through it (a
    typedef'd template whose own namespace holds nothing else) loses its namespaces."""
    prog = ctx.prog
    # truthiness tests of a link that came from `.parent`
    tests = []
    scanned = 0
    for mi in sorted(prog.modules.values(), key=lambda m: m.rel):
        if not mi.rel.startswith(package):
            continue
        for fn in [f for f in ast.walk(mi.tree) if isinstance(f, ast.FunctionDef)]:
            scanned += 1
            links = {t.id for st in walk_no_nested(fn) if isinstance(st, ast.Assign) and isinstance(st.value, ast.Attribute) and st.value.attr == "parent"
                     for t in st.targets if isinstance(t, ast.Name)}

            def is_link(e) -> bool:
                return (isinstance(e, ast.Name) and e.id in links) or (isinstance(e, ast.Attribute) and e.attr == "parent")
            for n_ in walk_no_nested(fn):
                subjects = []
                if isinstance(n_, (ast.If, ast.While, ast.IfExp)):
                    t = n_.test
                    subjects = [t] if not isinstance(t, ast.BoolOp) else list(t.values)
                elif isinstance(n_, ast.UnaryOp) and isinstance(n_.op, ast.Not):
                    subjects = [n_.operand]
                for s_ in subjects:
                    while isinstance(s_, ast.UnaryOp) and isinstance(s_.op, ast.Not):
                        s_ = s_.operand
                    if is_link(s_):
                        tests.append((mi, fn, s_))
    # classes that become a parent, and whether they can be falsy
    owners = []
    for mi in sorted(prog.modules.values(), key=lambda m: m.rel):
        if not mi.rel.startswith(package):
            continue
        for q, ci in sorted(mi.classes.items()):
            owns = any(isinstance(st, ast.Assign) and any(isinstance(t, ast.Attribute) and t.attr == "parent" for t in st.targets)
                       and isinstance(st.value, ast.Name) and st.value.id == "self" for m in ci.methods.values() for st in ast.walk(m))
            # ... and can stand in such a chain: the walks read `<link>.name`, so only owners that carry a name are ancestors
            named = any(isinstance(st, (ast.Assign, ast.AnnAssign)) and any(isinstance(t, ast.Attribute) and t.attr == "name" and isinstance(t.value, ast.Name)
                                                                             and t.value.id == "self" for t in (st.targets if isinstance(st, ast.Assign) else [st.target]))
                        for k in prog.mro(ci) for m in k.methods.values() for st in ast.walk(m))
            if owns and named:
                owners.append(ci)
    if not tests or not owners:
        raise AnalysisError(f"{rep.prop}/{rid}: {len(tests)} truthiness tests of a parent link, {len(owners)} classes that own children ({scanned} functions scanned)")
    where = "; ".join(sorted({f"{fn.name} (`{unparse(s_)}`)" for _, fn, s_ in tests})[:3])
    for ci in owners:
        falsy = [m for k in prog.mro(ci) for m in ("__len__", "__bool__") if m in k.methods]
        rep.add(rid, f"parent link:{ci.qual}:an object that can be a parent is always truthy", not falsy,
                f"{ci.qual} defines {falsy}: an empty one is falsy, and {where} take a falsy link for the end of the chain - every name qualified through an "
                f"empty {ci.name} loses the namespaces above it", f"{ci.mod.rel}:{ci.node.lineno}")


def loop_carried_locals(fn: ast.FunctionDef, loop: ast.For) -> List[Tuple[str, ast.AST]]:
    """Locals that one iteration of `loop` reads on a path on which *this* iteration has not assigned them, although the
    loop body assigns them on other paths (plain assignments only: `x += ...` accumulates by design).  Such a local
    holds what an earlier element left in it."""
    assigned = set()
    for n in ast.walk(ast.Module(body=loop.body, type_ignores=[])):
        if isinstance(n, ast.Assign) and not isinstance(n.value, ast.Constant):       # flags (`first = False`) are carried by design
            for t in n.targets:
                assigned |= {x.id for x in ast.walk(t) if isinstance(x, ast.Name) and isinstance(x.ctx, ast.Store)}
    accum = {n.target.id for n in ast.walk(ast.Module(body=loop.body, type_ignores=[])) if isinstance(n, ast.AugAssign) and isinstance(n.target, ast.Name)}
    assigned -= accum
    a = _LocalMustDef(fn)
    a.locals = set(assigned)
    a.params = set()
    a.bad = []
    a.block(loop.body, {x.id for x in ast.walk(loop.target) if isinstance(x, ast.Name)})
    out, seen = [], set()
    for var, node in a.bad:
        if var in assigned and var not in seen:
            seen.add(var)
            out.append((var, node))
    return out


def rule_no_state_carried_between_elements(ctx, rep: Report, rid="X7", classes=("PybindWrapper", "MatlabWrapper"), min_loops=30):
    """In every loop of the generators over declarations (classes, methods, arguments, ...) a local that the loop body sets for
    *some* elements only is not read for the others: it would still hold what an earlier element left there (an alias
    computed for one class exported for the classes that follow it).  Removing or adding an element then changes the text
    generated for its neighbours."""
    prog = ctx.prog
    n = 0
    for cname in classes:
        ci = prog.cls(cname)
        for k in prog.mro(ci):
            for mname, fn in sorted(k.methods.items()):
                for loop in [l for l in walk_no_nested(fn) if isinstance(l, ast.For)]:
                    n += 1
                    # the loops whose elements are classes / declarations of a namespace (the id replay loops carry state by design: C05)
                    if not any(w in unparse(loop.iter) for w in ("classes", ".content", "enums", "properties")):
                        continue
                    carried = loop_carried_locals(fn, loop)
                    rep.add(rid, f"loop:{k.name}.{mname}:over {unparse(loop.iter)[:40]}:nothing is carried from one element to the next",
                            not carried,
                            "; ".join(f"`{v}` is read at line {nd.lineno} on a path on which this iteration did not assign it" for v, nd in carried[:2]) +
                            ": it holds the value an earlier element left there, so what is generated for one element depends on its predecessors",
                            f"{k.mod.rel}:{loop.lineno}", nontrivial=bool(carried))
    if n < min_loops:
        raise AnalysisError(f"{rep.prop}/{rid}: only {n} loops scanned in {classes}")


# ------------------------------------------------------------------------------------------------------------------
# Z7 / Z8: no re-parsing inside a parse, no super-linear regular expression on the input
RE_PARSE_CALLS = {"parseString", "parse_string", "parseFile", "parse_file", "searchString", "search_string", "scanString", "scan_string",
                  "transformString", "transform_string"}


def rule_no_reparse_in_actions(ctx, rep: Report, rid="Z7", min_actions=20):
    """A parse action (and whatever it calls to build its node) does not start another parse.  A grammar element that
    captures its text (`originalTextFor`) and whose action parses that text again makes every nesting level parse the
    levels below it twice - 2^depth - and each nested parseString also resets the memo table of the running parse."""
    aa, prog = ctx.actions, ctx.prog
    from .rules_grammar import parse_root
    root, _ = parse_root(ctx)
    n = 0
    for a in aa.distinct_actions(root):
        n += 1
        lv = a.action
        bodies = [(lv.node, "the action")]
        if isinstance(lv.node, ast.Lambda) and isinstance(lv.node.body, ast.Call):
            tgt = aa.resolve_callee(lv.node.body, lv.mi, lv.cls_qual)
            if tgt is not None:
                bodies.append((tgt[1], f"{tgt[1].name}()"))
                for c in ast.walk(tgt[1]):
                    if isinstance(c, ast.Call):
                        t2 = aa.resolve_callee(c, tgt[0].mod if tgt[0] else lv.mi, tgt[0].qual if tgt[0] else None)
                        if t2 is not None and t2[1].name != "__init__":
                            bodies.append((t2[1], f"{t2[1].name}()"))
        hits = [(w, c) for b, w in bodies for c in ast.walk(b) if isinstance(c, ast.Call) and isinstance(c.func, ast.Attribute) and c.func.attr in RE_PARSE_CALLS]
        rep.add(rid, f"{aa.label(a)}:the action builds its node from the tokens it was given (no nested parse)", not hits,
                "; ".join(f"{w}: `{unparse(c)[:50]}` (line {c.lineno})" for w, c in hits[:2]) +
                ": the text matched by this element is parsed a second time from inside the parse - nested elements are parsed twice per level "
                "(exponential in the nesting depth), and the nested call resets the packrat table", f"{lv.mi.rel}:{getattr(lv.node, 'lineno', 0)}",
                nontrivial=bool(hits))
    if n < min_actions:
        raise AnalysisError(f"{rep.prop}/{rid}: only {n} parse actions scanned")


def _regex_chars(item) -> Optional[Set[int]]:
    """Characters (code points below 128) one regex item can start with / consist of; None = anything."""
    import re._constants as sc
    op, av = item
    WS, DIG = set(map(ord, " \t\n\r\f\v")), set(map(ord, "0123456789"))
    WORD = set(map(ord, "abcdefghijklmnopqrstuvwxyzABCDEFGHIJKLMNOPQRSTUVWXYZ0123456789_"))
    ALL = set(range(128))
    cats = {sc.CATEGORY_SPACE: WS, sc.CATEGORY_DIGIT: DIG, sc.CATEGORY_WORD: WORD, sc.CATEGORY_NOT_SPACE: ALL - WS,
            sc.CATEGORY_NOT_DIGIT: ALL - DIG, sc.CATEGORY_NOT_WORD: ALL - WORD}
    if op == sc.LITERAL:
        return {av} if av < 128 else set()
    if op == sc.NOT_LITERAL:
        return ALL - {av}
    if op == sc.ANY:
        return ALL - {10}
    if op == sc.IN:
        out: Set[int] = set()
        neg = False
        for k, v in av:
            if k == sc.NEGATE:
                neg = True
            elif k == sc.LITERAL:
                out.add(v)
            elif k == sc.RANGE:
                out |= set(range(v[0], min(v[1], 127) + 1))
            elif k == sc.CATEGORY:
                out |= cats.get(v, ALL)
        return (ALL - out) if neg else out
    if op == sc.CATEGORY:
        return cats.get(av, ALL)
    if op in (sc.MAX_REPEAT, sc.MIN_REPEAT):
        body = list(av[2])
        return _regex_first(body)
    if op == sc.SUBPATTERN:
        return _regex_first(list(av[3]))
    if op == sc.BRANCH:
        out = set()
        for b in av[1]:
            f = _regex_first(list(b))
            if f is None:
                return None
            out |= f
        return out
    if op == sc.AT:
        return set()
    return None


def _regex_first(items) -> Optional[Set[int]]:
    """Characters a sequence can start with (skipping leading items that can match the empty string)."""
    import re._constants as sc
    out: Set[int] = set()
    for it in items:
        f = _regex_chars(it)
        if f is None:
            return None
        out |= f
        op, av = it
        nullable = (op in (sc.MAX_REPEAT, sc.MIN_REPEAT) and av[0] == 0) or op == sc.AT
        if not nullable:
            return out
    return out


def regex_ambiguous_repeats(pattern: str) -> List[str]:
    r"""Unbounded repeats nested in an unbounded repeat such that one run of characters can be split between the inner and the
    outer repetition in many ways (`(\s*\n)+`: `\s` matches `\n` too) - backtracking is then exponential in the length of
    the run.  A syntactic criterion on the parsed pattern: inner repeat's characters overlap what follows it inside the
    outer body, or - the inner repeat being last - what the outer body starts with."""
    import re._parser as sp
    import re._constants as sc
    found: List[str] = []

    def unbounded(it) -> bool:
        return it[0] in (sc.MAX_REPEAT, sc.MIN_REPEAT) and it[1][1] == sc.MAXREPEAT

    def walk(items, inside_outer_body):
        for k, it in enumerate(items):
            op, av = it
            if op in (sc.MAX_REPEAT, sc.MIN_REPEAT):
                body = list(av[2])
                if unbounded(it):
                    check_body(body)
                walk(body, None)
            elif op == sc.SUBPATTERN:
                walk(list(av[3]), None)
            elif op == sc.BRANCH:
                for b in av[1]:
                    walk(list(b), None)

    def flat(items):
        out = []
        for it in items:
            if it[0] == sc.SUBPATTERN:
                out += flat(list(it[1][3]))
            else:
                out.append(it)
        return out

    def check_body(body):
        seq = flat(body)
        for k, it in enumerate(seq):
            if unbounded(it):
                inner = _regex_first(list(it[1][2]))
                rest = seq[k + 1:]
                nxt = _regex_first(rest) if rest else None
                rest_nullable = all((x[0] in (sc.MAX_REPEAT, sc.MIN_REPEAT) and x[1][0] == 0) or x[0] == sc.AT for x in rest)
                follow = set(nxt or set())
                if not rest or rest_nullable:
                    f0 = _regex_first(seq)
                    follow |= (f0 if f0 is not None else set(range(128)))
                if inner is None or nxt is None and rest:
                    found.append("an unbounded repeat of `.`-like items inside an unbounded repeat")
                elif inner & follow:
                    found.append(f"inner repeat and what follows it share {sorted(chr(c) for c in (inner & follow))[:4]!r}")
    try:
        walk(list(sp.parse(pattern)), None)
    except Exception:
        return []
    return found


def rule_no_superlinear_regex(ctx, rep: Report, rid="Z8", package="gtwrap/"):
    """Every regular expression of the tool is applied to text of unbounded length (an interface file, a name, a docstring): none
    nests an unbounded repetition inside another so that a run of characters can be divided between them ambiguously."""
    for pat, want in ((r"(\s*\n)+$", True), (r"\\(x[0-9a-f]{2}|.)", False), (r"(a+)+b", True), (r"\s*\n", False), (r"(\w+\s)+", False)):
        if bool(regex_ambiguous_repeats(pat)) != want:
            raise AnalysisError(f"{rep.prop}/{rid}: built-in example {pat!r} is not decided as expected")
    prog = ctx.prog
    n = 0
    for mi in sorted(prog.modules.values(), key=lambda m: m.rel):
        if not mi.rel.startswith(package):
            continue
        for c in ast.walk(mi.tree):
            if isinstance(c, ast.Call) and (dotted(c.func) or "").split(".")[0] in ("re", "regex") and c.args and isinstance(c.args[0], ast.Constant) \
                    and isinstance(c.args[0].value, str) and (dotted(c.func) or "").split(".")[-1] in ("compile", "sub", "subn", "match", "search", "fullmatch", "findall", "finditer", "split"):
                n += 1
                probs = regex_ambiguous_repeats(c.args[0].value)
                rep.add(rid, f"regex:{mi.rel.split('/')[-1]}:{c.args[0].value[:40]!r}:no ambiguous nested repetition", not probs,
                        f"{probs[:2]}: a run of k such characters that is not followed by what the pattern needs is tried in 2^k ways (twenty-odd blank "
                        f"lines in a file take seconds, a few more minutes)", f"{mi.rel}:{c.lineno}", nontrivial=bool(probs))
            elif isinstance(c, ast.Call) and c.func.__class__ is ast.Name and c.func.id == "Regex" and c.args and isinstance(c.args[0], ast.Constant):
                n += 1
                probs = regex_ambiguous_repeats(str(c.args[0].value))
                rep.add(rid, f"regex:{mi.rel.split('/')[-1]}:Regex({str(c.args[0].value)[:30]!r}):no ambiguous nested repetition", not probs, f"{probs[:2]}",
                        f"{mi.rel}:{c.lineno}", nontrivial=bool(probs))
    rep.units["regexes_checked"] = n


_MUTATORS = {"append", "extend", "insert", "remove", "pop", "clear", "add", "discard", "update", "popitem", "setdefault", "sort", "reverse", "popleft", "appendleft"}


def while_loops_without_progress(fn) -> List[Tuple[ast.While, int, List[str]]]:
    """`while` loops of fn that have an iteration path which neither leaves the loop (break / return / raise) nor changes
    anything the loop's condition reads: [(loop, line where such a path ends, names the condition reads)].  A name counts
    as changed by an assignment to it (or to an attribute / item of it) and by a mutating method called on it."""
    out = []
    for loop in [x for x in ast.walk(fn) if isinstance(x, ast.While)]:
        if isinstance(loop.test, ast.Constant) and loop.test.value:
            names = set()
        else:
            bound_in_test = {t.id for c in ast.walk(loop.test) if isinstance(c, ast.comprehension) for t in ast.walk(c.target) if isinstance(t, ast.Name)}
            names = {x.id for x in ast.walk(loop.test) if isinstance(x, ast.Name) and isinstance(x.ctx, ast.Load)} - bound_in_test - {"any", "all", "len", "not", "isinstance", "True", "False", "None"}

        def progress(st) -> bool:
            for x in ast.walk(st):
                if isinstance(x, (ast.Assign, ast.AugAssign, ast.AnnAssign)):
                    tgts = x.targets if isinstance(x, ast.Assign) else [x.target]
                    for t in tgts:
                        for y in ast.walk(t):
                            if isinstance(y, ast.Name) and y.id in names:
                                return True
                if isinstance(x, ast.Delete) and any(isinstance(y, ast.Name) and y.id in names for t in x.targets for y in ast.walk(t)):
                    return True
                if isinstance(x, ast.Call) and isinstance(x.func, ast.Attribute) and x.func.attr in _MUTATORS \
                        and any(isinstance(y, ast.Name) and y.id in names for y in ast.walk(x.func.value)):
                    return True
                if isinstance(x, ast.NamedExpr) and isinstance(x.target, ast.Name) and x.target.id in names:
                    return True
            return False
        ends: List[int] = []

        def seq(stmts, states: Set[bool]) -> Set[bool]:
            for st in stmts:
                if not states:
                    break
                if isinstance(st, (ast.Return, ast.Raise, ast.Break)):
                    return set()
                if isinstance(st, ast.Continue):
                    if False in states:
                        ends.append(st.lineno)
                    return set()
                if isinstance(st, ast.If):
                    pre = {True} if progress(st.test) else states
                    states = seq(st.body, set(pre)) | seq(st.orelse, set(pre))
                elif isinstance(st, (ast.For, ast.While)):
                    inner = seq(st.body, set(states))
                    states = states | inner | seq(st.orelse, set(states))
                elif isinstance(st, ast.With):
                    states = seq(st.body, states)
                elif isinstance(st, ast.Try):
                    a = seq(st.body, set(states))
                    o = seq(st.orelse, set(a)) if st.orelse else a
                    for h in st.handlers:
                        o |= seq(h.body, states | a)
                    states = seq(st.finalbody, o) if st.finalbody else o
                elif isinstance(st, (ast.FunctionDef, ast.ClassDef)):
                    continue
                else:
                    states = {True} if progress(st) else states
            return states
        end = seq(loop.body, {True} if progress(loop.test) else {False})
        if False in end:
            ends.append(loop.body[-1].end_lineno or loop.body[-1].lineno)
        if ends:
            out.append((loop, min(ends), sorted(names)))
    return out


_WHILE_POSITIVE = """
def f(args):
    out = []
    while any(a.default is not None for a in args):
        last = args[-1]
        if last.default is not None:
            args.remove(last)
    return out
"""
_WHILE_NEGATIVE = """
def f(obj):
    names = []
    ancestor = obj.parent
    while ancestor and ancestor.name:
        names = [ancestor.name] + names
        ancestor = ancestor.parent
    i = 0
    while i < 3:
        if names:
            i += 1
            continue
        i += 2
    return names
"""


def rule_while_loops_make_progress(ctx, rep: Report, rid="V11", packages=("gtwrap/", "scripts/")):
    """A failing run terminates.  Every `while` loop of the tool changes, on every path through its body that stays in the
    loop, something its condition reads (the counter, the cursor, the list that is being consumed).  A body that changes it
    only under a condition spins for ever on the input for which the condition is false - e.g. peeling defaulted arguments
    off the end of a list `while any(default)` stops making progress when a defaulted argument is followed by a required
    one, and the assertion that used to reject that input is never reached."""
    for label, src, want in (("positive", _WHILE_POSITIVE, True), ("negative", _WHILE_NEGATIVE, False)):
        if bool(while_loops_without_progress(ast.parse(src).body[0])) != want:
            raise AnalysisError(f"{rep.prop}/{rid}: built-in {label} example is not decided as expected")
    prog = ctx.prog
    nfun = nloops = 0
    for mi in sorted(prog.modules.values(), key=lambda m: m.rel):
        if not mi.rel.startswith(packages):
            continue
        fns = [(name, f) for name, f in mi.functions.items()] + [(f"{q}.{m}", f) for q, c in mi.classes.items() for m, f in c.methods.items()]
        for name, fn in sorted(fns, key=lambda x: x[0]):
            nfun += 1
            loops = [x for x in ast.walk(fn) if isinstance(x, ast.While)]
            nloops += len(loops)
            bad = {id(l): (ln, names) for l, ln, names in while_loops_without_progress(fn)}
            for k, l in enumerate(loops):
                hit = bad.get(id(l))
                rep.add(rid, f"{mi.rel}:{name}:while#{k}:every iteration changes what the condition reads, or leaves the loop", hit is None,
                        f"`while {unparse(l.test)[:50]}`: a path through the body ending at line {hit[0] if hit else 0} changes none of {hit[1] if hit else []} and does not "
                        f"leave the loop: on an input that takes this path the run never ends (no output, no error)", f"{mi.rel}:{l.lineno}")
    rep.units["functions_scanned_for_while_loops"] = nfun
    rep.units["while_loops"] = nloops
    if nfun < 100:
        raise AnalysisError(f"{rep.prop}/{rid}: only {nfun} functions scanned")


_TEXT_NEUTRAL_CALLS = {"len", "print", "isinstance", "str", "type", "id", "repr"}


def rule_text_reaches_the_parser_as_read(ctx, rep: Report, rid="L7", min_sites=3):
    """Between `read()` and the parse the interface text is only put together (`+`, `+=`, a separating "\\n"): it is never taken
    apart or rewritten by the generators themselves.  `str.splitlines()` also breaks at form feed, U+0085, U+2028 ... (a `//`
    comment then ends early and the rest of its line is parsed as code), `strip` / `replace` / `expandtabs` / `re.sub` / a
    `transformString` pre-pass change what separates two tokens (a comment removed without a blank in its place glues
    `const/**/T` into one word).  Checked for every function that reads a file for parsing and for Module.parseString: any
    method call or function call applied to the text (or a value computed from it) other than the parse itself is reported."""
    prog = ctx.prog
    n = 0
    targets = []
    for mi in sorted(prog.modules.values(), key=lambda m: m.rel):
        if not mi.rel.startswith(("gtwrap/", "scripts/")) or mi.rel.startswith("gtwrap/xml_parser"):
            continue
        fns = [(name, f, None) for name, f in mi.functions.items()] + [(f"{q}.{m}", f, c) for q, c in mi.classes.items() for m, f in c.methods.items()]
        # helpers that hand out what they read (`def _read(path): with open(path) as f: return f.read()`): a call of one is a read
        readers = set()
        for name, fn, ci in fns:
            direct = [c for c in walk_no_nested(fn) if isinstance(c, ast.Call) and isinstance(c.func, ast.Attribute) and c.func.attr in ("read", "read_text")]
            if direct and any(isinstance(r, ast.Return) and r.value is not None and any(
                    any(y is c for y in ast.walk(r.value)) or (isinstance(y, ast.Name) and any(
                        isinstance(st, ast.Assign) and len(st.targets) == 1 and isinstance(st.targets[0], ast.Name) and st.targets[0].id == y.id
                        and any(z is c for z in ast.walk(st.value)) for st in walk_no_nested(fn)))
                    for c in direct for y in ast.walk(r.value)) for r in walk_no_nested(fn)):
                readers.add(fn.name)
        for name, fn, ci in fns:
            reads = [c for c in walk_no_nested(fn) if isinstance(c, ast.Call) and isinstance(c.func, ast.Attribute)
                     and (c.func.attr in ("read", "read_text", "readlines", "readline") or c.func.attr in readers)] + \
                    [c for c in walk_no_nested(fn) if isinstance(c, ast.Call) and isinstance(c.func, ast.Name) and c.func.id in readers]
            is_entry = name.endswith("Module.parseString")
            parses = [c for c in walk_no_nested(fn) if isinstance(c, ast.Call) and isinstance(c.func, ast.Attribute) and c.func.attr in ("parseString", "parse_string")]
            if (reads and (parses or fn.name in readers or any(isinstance(c, ast.Call) and isinstance(c.func, ast.Attribute) and c.func.attr in ("wrap_file", "parseString")
                                                               for c in walk_no_nested(fn)))) or is_entry:
                targets.append((mi, name, fn, reads, is_entry))
    for mi, name, fn, reads, is_entry in targets:
        tainted: Set[str] = set()
        if is_entry:
            ps = [p for p in func_params(fn) if p not in ("self", "cls")]
            if ps:
                tainted.add(ps[0])
        read_ids = {id(c) for c in reads}

        def carries(x) -> bool:
            return any((isinstance(y, ast.Name) and y.id in tainted) or id(y) in read_ids for y in ast.walk(x))
        changed = True
        while changed:
            changed = False
            for st in walk_no_nested(fn):
                tgt = None
                if isinstance(st, ast.Assign) and len(st.targets) == 1 and isinstance(st.targets[0], ast.Name):
                    tgt = st.targets[0].id
                    val = st.value
                elif isinstance(st, ast.AugAssign) and isinstance(st.target, ast.Name):
                    tgt, val = st.target.id, st.value
                elif isinstance(st, ast.Expr) and isinstance(st.value, ast.Call) and isinstance(st.value.func, ast.Attribute) \
                        and st.value.func.attr in ("append", "extend") and isinstance(st.value.func.value, ast.Name) and st.value.args:
                    tgt, val = st.value.func.value.id, st.value.args[0]
                elif isinstance(st, (ast.For, ast.comprehension)) and isinstance(st.target, ast.Name):
                    tgt, val = st.target.id, st.iter
                if tgt is not None and tgt not in tainted and carries(val):
                    tainted.add(tgt)
                    changed = True
        bad = []
        for c in walk_no_nested(fn):
            if not isinstance(c, ast.Call) or id(c) in read_ids:
                continue
            if isinstance(c.func, ast.Attribute):
                recv_carries = carries(c.func.value)
                args_carry = any(carries(a) for a in list(c.args) + [k.value for k in c.keywords])
                if c.func.attr in ("parseString", "parse_string", "wrap_file", "write", "format", "append", "extend", "encode"):
                    continue
                if c.func.attr == "join" and isinstance(c.func.value, ast.Constant) and not recv_carries:
                    continue                  # "\n".join(parts): putting together
                if recv_carries or (args_carry and (dotted(c.func) or "").split(".")[0] in ("re", "textwrap", "string")) or \
                        (args_carry and c.func.attr in ("transformString", "transform_string", "sub", "subn", "split", "scanString")):
                    bad.append(f"line {c.lineno}: `{unparse(c)[:50]}`")
            elif isinstance(c.func, ast.Name) and c.func.id not in _TEXT_NEUTRAL_CALLS and any(carries(a) for a in c.args):
                if c.func.id in ("open",):
                    continue
                bad.append(f"line {c.lineno}: `{unparse(c)[:50]}`")
        n += 1
        rep.add(rid, f"{mi.rel}:{name}:the text is handed to the parser as it was read", not bad,
                f"{bad[:3]}: the text is taken apart or rewritten before the grammar sees it, so what separates two tokens (a line break inside a comment, "
                f"a comment between two words) is no longer what the file says", f"{mi.rel}:{fn.lineno}")
    rep.units["functions_reading_interface_text"] = n
    if n < min_sites:
        raise AnalysisError(f"{rep.prop}/{rid}: only {n} functions that read interface text for parsing were found")


# ------------------------------------------------------------------------------------------ configuration fixed at construction
def rule_configuration_is_fixed(ctx, rep: Report, rid="R11", classes=("PybindWrapper", "MatlabWrapper")):
    """What a wrapper object was configured with - every attribute its constructor computes from a constructor argument
    (module name, namespaces, ignore list, serialization switch, templates) - is never re-bound or changed in place by another
    method.  A method that does (wrap_submodule renaming the module to the part it wraps, a helper appending to the ignore list)
    makes the next call on the same object generate for other options than the ones it was built with: the output then depends
    on the call history, and the script (a fresh object per run) no longer produces what the API produces."""
    prog = ctx.prog
    total = 0
    for cname in classes:
        ci = prog.cls(cname)
        init = prog.find_method(ci, "__init__")
        if not init:
            raise AnalysisError(f"{rep.prop}/{rid}: {cname}.__init__ not found")
        params = set(func_params(init[1])) - {"self"}
        cfg: Dict[str, ast.AST] = {}
        for st in walk_no_nested(init[1]):
            tgts = st.targets if isinstance(st, ast.Assign) else ([st.target] if isinstance(st, ast.AnnAssign) and st.value is not None else [])
            for t in tgts:
                if isinstance(t, ast.Attribute) and isinstance(t.value, ast.Name) and t.value.id == "self" and \
                        _roots(init[1], st.value) & params:
                    cfg[t.attr] = st
        if len(cfg) < 3:
            raise AnalysisError(f"{rep.prop}/{rid}: only {len(cfg)} configuration attributes found in {cname}.__init__")
        total += len(cfg)
        hits: Dict[str, List[str]] = {}
        for c in prog.mro(ci):
            for mname, fn in sorted(c.methods.items()):
                if mname == "__init__":
                    continue
                for attr, node, how in _self_mutations(fn):
                    if attr in cfg:
                        # `self.a = self.a` / list(self.a): the same value again
                        p = parent(node)
                        if how == "assign" and isinstance(p, ast.Assign) and unparse(p.value) in (f"self.{attr}", f"list(self.{attr})", f"tuple(self.{attr})", f"str(self.{attr})"):
                            continue
                        hits.setdefault(attr, []).append(f"{c.qual}.{mname}:{node.lineno} ({how})")
        for attr in sorted(cfg):
            rep.add(rid, f"configuration:{cname}.{attr}:set by the constructor only", attr not in hits,
                    f"self.{attr} comes from a constructor argument and is changed again in {hits.get(attr)}: later calls on the same wrapper object "
                    f"generate for another configuration than the one it was built with", f"{ci.mod.rel}:{cfg[attr].lineno}")
    rep.units["configuration_attributes"] = total


# ------------------------------------------------------------------------------------------ L8 tabs are not expanded before a verbatim copy
def rule_parser_keeps_tabs(ctx, rep: Report, rid="L8"):
    """pyparsing's parseString first replaces every tab by blanks up to the next tab stop - unless the expression it is called on
    was told `parseWithTabs()`.  The grammar copies default values verbatim (originalTextFor), so with the expansion a tab inside
    a default value turns into a number of blanks that depends on the column the value starts in: two files that differ in
    indentation only then give different default texts (and different generated code).  Checked at the entry point
    (Module.parseString): the expression whose parseString it calls is configured with parseWithTabs - in its class body, in its
    defining expression, or in the call chain itself - as long as the grammar has a verbatim-copying element."""
    prog = ctx.prog
    verb = []
    for mi in prog.modules.values():
        if mi.rel.startswith("gtwrap/interface_parser/"):
            verb += [c for c in ast.walk(mi.tree) if isinstance(c, ast.Call) and (dotted(c.func) or "").split(".")[-1] in ("originalTextFor", "original_text_for")]
    mod_ci = prog.cls("Module")
    entry = mod_ci.methods.get("parseString") or mod_ci.methods.get("parse_string")
    if entry is None:
        raise AnalysisError(f"{rep.prop}/{rid}: Module.parseString not found")
    calls = [c for c in walk_no_nested(entry) if isinstance(c, ast.Call) and isinstance(c.func, ast.Attribute) and c.func.attr in ("parseString", "parse_string")]
    if not calls:
        raise AnalysisError(f"{rep.prop}/{rid}: no parse call in Module.parseString")
    KEEP = ("parseWithTabs", "parse_with_tabs")

    SELF_RETURNING = ("ignore", "setParseAction", "set_parse_action", "setName", "set_name", "leaveWhitespace", "setDebug", "addParseAction",
                      "add_parse_action", "setWhitespaceChars") + KEEP

    def chain_keeps(e, allow_copy=False) -> bool:
        """`e` is a chain of method calls on some base expression.  In front of the parse call (allow_copy) the chain's *result* is
        parsed with: parseWithTabs anywhere in it counts, as long as what follows it hands the same settings on (self-returning
        methods, copy(), a results name).  As a statement of its own the chain configures its *base*: every method between the base
        and parseWithTabs has to return the expression itself (a copy() in between configures the copy)."""
        attrs = []
        while isinstance(e, ast.Call) and isinstance(e.func, ast.Attribute):
            attrs.append(e.func.attr)                     # outermost first
            e = e.func.value
        if not any(a in KEEP for a in attrs):
            return False
        k = max(i_ for i_, a in enumerate(attrs) if a in KEEP) if not allow_copy else min(i_ for i_, a in enumerate(attrs) if a in KEEP)
        if allow_copy:
            return all(a in SELF_RETURNING or a in ("copy", "setResultsName", "set_results_name") for a in attrs[:k])
        return all(a in SELF_RETURNING for a in attrs[k + 1:])
    for c in calls:
        recv = c.func.value
        ok = chain_keeps(recv, allow_copy=True)
        d = dotted(recv) or ""
        parts = d.split(".")
        if not ok and len(parts) == 2:
            try:
                owner = prog.cls(parts[0])
            except Exception:
                owner = None
            if owner is not None:
                attr = parts[1]
                # configured in the class body:  rule.parseWithTabs()   /   rule = (...).parseWithTabs()
                for st in owner.node.body:
                    if isinstance(st, ast.Expr) and chain_keeps(st.value):
                        base = st.value
                        while isinstance(base, ast.Call) and isinstance(base.func, ast.Attribute):
                            base = base.func.value       # rule.ignore(..).parseWithTabs(): the methods of the chain return the expression itself
                        if isinstance(base, ast.Name) and base.id == attr:
                            ok = True
                if attr in owner.attrs and chain_keeps(owner.attrs[attr]):
                    ok = True
                # or anywhere in the module:  Module.rule.parseWithTabs()
                for x in ast.walk(owner.mod.tree):
                    if isinstance(x, ast.Call) and isinstance(x.func, ast.Attribute) and x.func.attr in KEEP and dotted(x.func.value) == d:
                        ok = True
        rep.add(rid, "Module.parseString:tabs reach the grammar as written (parseWithTabs), not expanded to a column-dependent number of blanks",
                ok or not verb,
                f"`{unparse(c)[:60]}` expands tabs first and the grammar copies text verbatim at {len(verb)} place(s) (originalTextFor): `f(int x = g(1,<TAB>2))` "
                f"gives the default `g(1,   2)` or `g(1,       2)` depending on how far the line is indented - a change of layout between other tokens "
                f"changes the parse result and the generated code", f"{mod_ci.mod.rel}:{c.lineno}")
    rep.units["verbatim_copy_sites"] = len(verb)


# ------------------------------------------------------------------------------------------ Z9 recursion cycles walk a child once per level
_Z9_POSITIVE = '''
class Node:
    def __init__(self, kids):
        self.kids = [k.copy() for k in kids]
    def copy(self):
        return Node([k.copy() for k in self.kids])
'''
_Z9_NEGATIVE = '''
class Node:
    def __init__(self, kids):
        self.kids = list(kids)
    def copy(self):
        return Node([k.copy() for k in self.kids])
'''


def _cycle_fanout(classes: Dict[str, ast.ClassDef], only_parse_time: bool = False) -> List[Tuple[str, str, List[int]]]:
    """[(function, child source, lines)]: functions of the given classes that lie on a recursion cycle - through method calls,
    property reads and constructor calls - and enter the cycle two or more times for the same children in one activation.
    only_parse_time: restricted to functions reachable from a parse action (the constructor / from_parse_result of a class that
    has a `rule`), following calls, properties, constructors, str() / format to __repr__ / __str__ and == / in to __eq__."""
    fns: Dict[str, ast.FunctionDef] = {}
    by_name: Dict[str, List[str]] = {}
    props: Dict[str, List[str]] = {}
    for cq, cnode in classes.items():
        for st in cnode.body:
            if isinstance(st, (ast.FunctionDef, ast.AsyncFunctionDef)):
                q = f"{cq}.{st.name}"
                fns[q] = st
                by_name.setdefault(st.name, []).append(q)
                if any(unparse(d) in ("property", "functools.cached_property", "cached_property") for d in st.decorator_list):
                    if not any("cached" in unparse(d) for d in st.decorator_list):
                        props.setdefault(st.name, []).append(q)
    short = {cq.split(".")[-1]: cq for cq in classes}

    def sites(fn):
        """(node, targets, receiver-or-args)"""
        out = []
        for x in walk_no_nested(fn):
            if enclosing(x, ast.Raise) is not None:
                continue
            if isinstance(x, ast.Call) and isinstance(x.func, ast.Attribute) and x.func.attr in by_name:
                out.append((x, by_name[x.func.attr], [x.func.value]))
            elif isinstance(x, ast.Call) and isinstance(x.func, ast.Name) and x.func.id in short and f"{short[x.func.id]}.__init__" in fns:
                out.append((x, [f"{short[x.func.id]}.__init__"], list(x.args) + [k.value for k in x.keywords]))
            elif isinstance(x, ast.Attribute) and isinstance(x.ctx, ast.Load) and x.attr in props and not (isinstance(parent(x), ast.Call) and parent(x).func is x):
                out.append((x, props[x.attr], [x.value]))
        return out
    graph = {q: {t for _, ts, _ in sites(fn) for t in ts} for q, fn in fns.items()}

    def reaches(a, b) -> bool:
        seen, todo = set(), [a]
        while todo:
            v = todo.pop()
            for w in graph.get(v, ()):
                if w == b:
                    return True
                if w not in seen:
                    seen.add(w)
                    todo.append(w)
        return False
    parse_time = None
    if only_parse_time:
        def extra(fn):
            out = set()
            for x in walk_no_nested(fn):
                if enclosing(x, ast.Raise) is not None:
                    continue
                if (isinstance(x, ast.Call) and ((isinstance(x.func, ast.Attribute) and x.func.attr == "format") or
                                                   (isinstance(x.func, ast.Name) and x.func.id in ("str", "repr")))) or isinstance(x, ast.JoinedStr):
                    out |= set(by_name.get("__repr__", [])) | set(by_name.get("__str__", []))
                elif isinstance(x, ast.Compare) and any(isinstance(o, (ast.Eq, ast.NotEq, ast.In, ast.NotIn)) for o in x.ops):
                    out |= set(by_name.get("__eq__", [])) | set(by_name.get("__ne__", []))
            return out
        starts = [f"{cq}.{m}" for cq, cnode in classes.items() for m in ("__init__", "from_parse_result")
                  if f"{cq}.{m}" in fns and any(isinstance(st, ast.Assign) and any(unparse(t) == "rule" for t in st.targets) for st in cnode.body)]
        parse_time, todo = set(starts), list(starts)
        while todo:
            v = todo.pop()
            for w in graph.get(v, set()) | extra(fns[v]):
                if w not in parse_time:
                    parse_time.add(w)
                    todo.append(w)
    found = []
    for q, fn in sorted(fns.items()):
        if not reaches(q, q):
            continue
        if parse_time is not None and q not in parse_time:
            continue

        def key_of(e, node):
            # an iteration variable names its collection; a comprehension names what it ranges over; a local bound to one of these likewise
            if isinstance(e, (ast.ListComp, ast.GeneratorExp, ast.SetComp)):
                return "each of " + unparse(e.generators[0].iter)
            if isinstance(e, ast.Call) and isinstance(e.func, ast.Name) and e.func.id in ("list", "tuple", "sorted") and e.args:
                return key_of(e.args[0], node)
            if isinstance(e, ast.Name):
                p = node
                while p is not None and p is not fn:
                    if isinstance(p, (ast.ListComp, ast.GeneratorExp, ast.SetComp, ast.DictComp)):
                        for g in p.generators:
                            if any(isinstance(x, ast.Name) and x.id == e.id for x in ast.walk(g.target)):
                                return "each of " + unparse(g.iter)
                    if isinstance(p, ast.For) and any(isinstance(x, ast.Name) and x.id == e.id for x in ast.walk(p.target)):
                        return "each of " + unparse(p.iter)
                    p = parent(p)
                for st in walk_no_nested(fn):
                    if isinstance(st, ast.Assign) and len(st.targets) == 1 and isinstance(st.targets[0], ast.Name) and st.targets[0].id == e.id \
                            and isinstance(st.value, (ast.ListComp, ast.GeneratorExp)):
                        return "each of " + unparse(st.value.generators[0].iter)
            return unparse(e)
        groups: Dict[str, List[ast.AST]] = {}
        for node, targets, exprs in sites(fn):
            if not any(t == q or reaches(t, q) for t in targets):
                continue
            for e in exprs:
                k = key_of(e, node)
                if k in ("self",) or isinstance(e, ast.Constant):
                    continue
                lst = groups.setdefault(k, [])
                if not any(n_ is node for n_ in lst):
                    # a site nested inside another site of the same group is part of that one's argument (Node([k.copy() for k in ..]))
                    lst.append(node)
        for k, nodes in sorted(groups.items()):
            keep: List[ast.AST] = []
            for n_ in nodes:
                if all(not _exclusive(n_, m_) for m_ in keep):
                    keep.append(n_)
            if len(keep) >= 2:
                found.append((q, k, sorted({n_.lineno for n_ in keep})))
    return found


def rule_recursion_cycles_once_per_child(ctx, rep: Report, rid="Z9", package="gtwrap/interface_parser"):
    """What a parse action does with a nested construct stays linear in the nesting depth: wherever methods, properties and
    constructors of the parser's node classes call each other in a cycle (a `copy()` that builds a node whose constructor copies
    again; a property `declarations` that asks each nested namespace `is_empty`, which evaluates `declarations`), one activation
    enters the cycle at most once per child.  Two entries for the same children double the work per level - 2^depth
    constructions for a type or namespace nested `depth` deep, however fast the grammar itself is.  Properties are followed as
    calls; a cached property is evaluated once and does not count."""
    for label, src, want in (("positive", _Z9_POSITIVE, True), ("negative", _Z9_NEGATIVE, False)):
        t = ast.parse(src)
        for p_ in ast.walk(t):
            for c_ in ast.iter_child_nodes(p_):
                c_._parent = p_
        if bool(_cycle_fanout({"Node": t.body[0]})) != want:
            raise AnalysisError(f"{rep.prop}/{rid}: built-in {label} example is not decided as expected")
    prog = ctx.prog
    classes: Dict[str, ast.ClassDef] = {}
    rels: Dict[str, str] = {}
    for mi in prog.modules.values():
        if mi.rel.startswith(package):
            for q, ci in mi.classes.items():
                classes[q] = ci.node
                rels[q] = mi.rel
    if len(classes) < 15:
        raise AnalysisError(f"{rep.prop}/{rid}: only {len(classes)} parser node classes found")
    _, seen = _parse_time_reach(ctx, rep, rid, package)
    found = [(q, k, lines) for q, k, lines in _cycle_fanout(classes) if q in seen]
    rep.units["parser_classes_scanned_for_recursion_cycles"] = len(classes)
    for q, k, lines in found:
        cq = q.rsplit(".", 1)[0]
        rep.add(rid, f"recursion cycle:{q}:one entry per child", False,
                f"`{q}` lies on a cycle of calls among the node classes and enters it at lines {lines} for {k}: every level of nesting doubles the "
                f"work done while parsing (2^depth)", f"{rels.get(cq, package)}:{lines[0]}")
    rep.add(rid, "recursion cycles among the parser's node classes enter once per child", not found,
            f"{len(found)} function(s) enter their cycle twice for the same children", f"{package}:0", nontrivial=bool(found))
