"""Engine X: the type-checked clang AST of matlab.h (against declaration-only stubs)."""
from __future__ import annotations

import concurrent.futures as cf
import json
import os
import subprocess
import tempfile
from typing import Dict, Iterable, List, Optional

from .core import AnalysisError, VERIF

STUBS = os.path.join(VERIF, "stubs")
FILTERS = ["wrap", "calar", "error", "create_object", "checkArguments"]


def _clang() -> str:
    for c in ("clang++-14", "clang++"):
        for d in os.environ.get("PATH", "").split(os.pathsep):
            if os.path.exists(os.path.join(d, c)):
                return os.path.join(d, c)
    raise AnalysisError("clang++ not found")


def _dump_one(args):
    header, flt, extra = args
    with tempfile.TemporaryDirectory(prefix="wrapsa-x-") as d:
        tu = os.path.join(d, "tu.cpp")
        with open(tu, "w") as f:
            f.write(f'#include "{header}"\n')
        cmd = [_clang(), "-std=c++17", "-fsyntax-only", "-I", STUBS, "-Wno-everything", *extra,
               "-Xclang", "-ast-dump=json", "-Xclang", f"-ast-dump-filter={flt}", tu]
        p = subprocess.run(cmd, capture_output=True, text=True)
        if p.returncode != 0:
            raise AnalysisError(f"matlab.h does not type-check against the stubs ({' '.join(extra)}): "
                                + p.stderr.strip()[:400])
        return flt, p.stdout


class HeaderAST:
    def __init__(self, root: str, extra: Iterable[str] = ()):
        self.header = os.path.join(root, "matlab.h")
        if not os.path.exists(self.header):
            raise AnalysisError("anchor file vanished: matlab.h")
        self.decls: List[dict] = []
        with cf.ThreadPoolExecutor(max_workers=len(FILTERS)) as ex:
            for flt, out in ex.map(_dump_one, [(self.header, f, tuple(extra)) for f in FILTERS]):
                self.decls += self._parse(out)
        # keep declarations located in matlab.h only; de-duplicate by id
        seen = set()
        uniq = []
        for d in self.decls:
            if d.get("id") in seen:
                continue
            seen.add(d.get("id"))
            uniq.append(d)
        self.decls = uniq

    def _parse(self, s: str) -> List[dict]:
        dec = json.JSONDecoder()
        i, out = 0, []
        n = len(s)
        cur_file = [None]
        while i < n:
            while i < n and s[i].isspace():
                i += 1
            if i >= n:
                break
            o, j = dec.raw_decode(s, i)
            i = j
            loc = o.get("loc", {})
            f = loc.get("file") or (loc.get("expansionLoc") or {}).get("file")
            if f:
                cur_file[0] = f
            o["_file"] = cur_file[0]
            # clang prints "file" only when it changes; a decl inside matlab.h follows one
            out.append(o)
        return [o for o in out if (o.get("_file") or "").endswith("matlab.h")]

    # ------------------------------------------------------------------ queries
    def functions(self, name: str) -> List[dict]:
        """FunctionDecls (with body) named `name`, including explicit specialisations and the
        pattern of a function template."""
        out = []
        for d in self.decls:
            if d.get("name") != name:
                continue
            if d["kind"] == "FunctionDecl":
                out.append(d)
            elif d["kind"] == "FunctionTemplateDecl":
                for c in d.get("inner", []):
                    if c["kind"] == "FunctionDecl" and c.get("name") == name and _body(c) is not None \
                            and not any(x["kind"] == "TemplateArgument" for x in c.get("inner", [])):
                        c["_primary_template"] = True
                        out.append(c)
        res, seen = [], set()
        for f in out:
            if f["id"] not in seen and _body(f) is not None:
                seen.add(f["id"])
                res.append(f)
        return res

    def specialisations(self, name: str) -> Dict[str, dict]:
        """explicit specialisations name<T>: canonical T -> FunctionDecl."""
        out = {}
        for f in self.functions(name):
            ta = [x for x in f.get("inner", []) if x["kind"] == "TemplateArgument"]
            if ta and not f.get("_primary_template"):
                out[canon_type(ta[0].get("type", {}))] = f
        return out


def _body(f: dict) -> Optional[dict]:
    for c in f.get("inner", []):
        if c["kind"] == "CompoundStmt":
            return c
    return None


def canon_type(t: dict) -> str:
    q = t.get("desugaredQualType") or t.get("qualType") or ""
    return q.replace("class ", "").replace("struct ", "").strip()


def walk(n: dict):
    yield n
    for c in n.get("inner", []) or []:
        if isinstance(c, dict) and c:
            yield from walk(c)


def strip(n: dict) -> dict:
    """Skip implicit casts / parens / materialisations."""
    while n.get("kind") in ("ImplicitCastExpr", "ParenExpr", "MaterializeTemporaryExpr", "ExprWithCleanups",
                            "CXXBindTemporaryExpr", "CXXFunctionalCastExpr", "ConstantExpr") and n.get("inner"):
        n = n["inner"][0]
    return n


def callee(n: dict) -> Optional[str]:
    """Name of the function a CallExpr / CXXMemberCallExpr / CXXOperatorCallExpr calls."""
    if n.get("kind") not in ("CallExpr", "CXXMemberCallExpr", "CXXOperatorCallExpr"):
        return None
    inner = n.get("inner") or []
    if not inner:
        return None
    f = strip(inner[0])
    if f.get("kind") == "DeclRefExpr":
        return (f.get("referencedDecl") or {}).get("name")
    if f.get("kind") == "MemberExpr":
        return f.get("name")
    if f.get("kind") in ("UnresolvedLookupExpr", "UnresolvedMemberExpr"):
        return f.get("name") or f.get("member")
    if f.get("kind") == "CXXDependentScopeMemberExpr":
        return f.get("member")
    return None


def call_args(n: dict) -> List[dict]:
    return [strip(x) for x in (n.get("inner") or [])[1:]]


def calls(n: dict, name: Optional[str] = None) -> List[dict]:
    return [c for c in walk(n) if callee(c) is not None and (name is None or callee(c) == name)]


def ref_name(n: dict) -> Optional[str]:
    n = strip(n)
    if n.get("kind") == "DeclRefExpr":
        return (n.get("referencedDecl") or {}).get("name")
    return None


def statements(f: dict) -> List[dict]:
    b = _body(f)
    return list(b.get("inner", [])) if b else []


def line_of(n: dict) -> int:
    for k in ("loc", "range"):
        v = n.get(k) or {}
        if k == "range":
            v = v.get("begin") or {}
        for kk in ("line",):
            if kk in v:
                return v[kk]
        e = v.get("expansionLoc") or v.get("spellingLoc")
        if e and "line" in e:
            return e["line"]
    return 0
