"""Engine X: the type-checked clang AST of matlab.h (against declaration-only stubs)."""
from __future__ import annotations

import concurrent.futures as cf
import json
import os
import subprocess
import tempfile
from typing import Dict, Iterable, List, Optional

from .core import AnalysisError, VERIF

STUBS = os.path.join(VERIF, "stubs")
FILTERS = ["wrap", "calar", "error", "create_object", "checkArguments"]


def _clang() -> str:
    for c in ("clang++-14", "clang++"):
        for d in os.environ.get("PATH", "").split(os.pathsep):
            if os.path.exists(os.path.join(d, c)):
                return os.path.join(d, c)
    raise AnalysisError("clang++ not found")


def _dump_one(args):
    header, flt, extra = args
    with tempfile.TemporaryDirectory(prefix="wrapsa-x-") as d:
        tu = os.path.join(d, "tu.cpp")
        with open(tu, "w") as f:
            f.write(f'#include "{header}"\n')
        cmd = [_clang(), "-std=c++17", "-fsyntax-only", "-I", STUBS, "-Wno-everything", *extra,
               "-Xclang", "-ast-dump=json", "-Xclang", f"-ast-dump-filter={flt}", tu]
        p = subprocess.run(cmd, capture_output=True, text=True)
        if p.returncode != 0:
            raise AnalysisError(f"matlab.h does not type-check against the stubs ({' '.join(extra)}): "
                                + p.stderr.strip()[:400])
        return flt, p.stdout


class HeaderAST:
    def __init__(self, root: str, extra: Iterable[str] = ()):
        self.header = os.path.join(root, "matlab.h")
        if not os.path.exists(self.header):
            raise AnalysisError("anchor file vanished: matlab.h")
        self.decls: List[dict] = []
        with cf.ThreadPoolExecutor(max_workers=len(FILTERS)) as ex:
            for flt, out in ex.map(_dump_one, [(self.header, f, tuple(extra)) for f in FILTERS]):
                self.decls += self._parse(out)
        # helpers that the loaded functions call but whose names match none of the filters: fetch them by name
        # (a second, small dump) so that rules can follow a call into a helper defined in the header
        have = {d.get("name") for d in self.decls}
        wanted = set()
        for d in self.decls:
            for n in walk(d):
                if n.get("kind") == "DeclRefExpr":
                    rd = n.get("referencedDecl") or {}
                    if rd.get("kind") in ("FunctionDecl", "FunctionTemplateDecl") and rd.get("name") and rd["name"] not in have \
                            and not rd["name"].startswith(("mx", "mex", "operator", "__")):
                        wanted.add(rd["name"])
                elif n.get("kind") in ("UnresolvedLookupExpr",) and n.get("name") and n["name"] not in have \
                        and not n["name"].startswith(("mx", "mex", "operator", "__")):
                    wanted.add(n["name"])
        if wanted:
            with cf.ThreadPoolExecutor(max_workers=min(8, len(wanted))) as ex:
                for flt, out in ex.map(_dump_one, [(self.header, f, tuple(extra)) for f in sorted(wanted)]):
                    self.decls += self._parse(out)
        # keep declarations located in matlab.h only; de-duplicate by id
        seen = set()
        uniq = []
        for d in self.decls:
            # one declaration can match several filters, each dumped by its own clang run (ids differ between runs): the
            # position in the header identifies it
            rb = (d.get("range") or {}).get("begin") or {}
            key = (d.get("kind"), d.get("name"), rb.get("offset", (rb.get("expansionLoc") or {}).get("offset", d.get("id"))))
            if key in seen:
                continue
            seen.add(key)
            uniq.append(d)
        self.decls = uniq

    def _parse(self, s: str) -> List[dict]:
        dec = json.JSONDecoder()
        i, out = 0, []
        n = len(s)
        cur_file = [None]
        while i < n:
            while i < n and s[i].isspace():
                i += 1
            if i >= n:
                break
            o, j = dec.raw_decode(s, i)
            i = j
            loc = o.get("loc", {})
            f = loc.get("file") or (loc.get("expansionLoc") or {}).get("file")
            if f:
                cur_file[0] = f
            o["_file"] = cur_file[0]
            # clang prints "file" only when it changes; a decl inside matlab.h follows one
            out.append(o)
        return [o for o in out if (o.get("_file") or "").endswith("matlab.h")]

    # ------------------------------------------------------------------ queries
    def functions(self, name: str) -> List[dict]:
        """FunctionDecls (with body) named `name`, including explicit specialisations and the
        pattern of a function template."""
        out = []
        for d in self.decls:
            if d.get("name") != name:
                continue
            if d["kind"] == "FunctionDecl":
                out.append(d)
            elif d["kind"] == "FunctionTemplateDecl":
                for c in d.get("inner", []):
                    if c["kind"] == "FunctionDecl" and c.get("name") == name and _body(c) is not None \
                            and not any(x["kind"] == "TemplateArgument" for x in c.get("inner", [])):
                        c["_primary_template"] = True
                        out.append(c)
        res, seen = [], set()
        for f in out:
            if f["id"] not in seen and _body(f) is not None:
                seen.add(f["id"])
                res.append(f)
        return res

    def functions_inlined(self, name: str) -> List[dict]:
        """functions(name) with calls of header-defined helpers expanded in place (see inline_helpers)."""
        return [inline_helpers(self, f) for f in self.functions(name)]

    def specialisations(self, name: str) -> Dict[str, dict]:
        """explicit specialisations name<T>: canonical T -> FunctionDecl."""
        out = {}
        for f in self.functions(name):
            ta = [x for x in f.get("inner", []) if x["kind"] == "TemplateArgument"]
            if ta and not f.get("_primary_template"):
                out[canon_type(ta[0].get("type", {}))] = f
        return out


def _body(f: dict) -> Optional[dict]:
    for c in f.get("inner", []):
        if c["kind"] == "CompoundStmt":
            return c
    return None


def canon_type(t: dict) -> str:
    q = t.get("desugaredQualType") or t.get("qualType") or ""
    return q.replace("class ", "").replace("struct ", "").strip()


def walk(n: dict):
    yield n
    for c in n.get("inner", []) or []:
        if isinstance(c, dict) and c:
            yield from walk(c)


def strip(n: dict) -> dict:
    """Skip implicit casts / parens / materialisations."""
    while n.get("kind") in ("ImplicitCastExpr", "ParenExpr", "MaterializeTemporaryExpr", "ExprWithCleanups",
                            "CXXBindTemporaryExpr", "CXXFunctionalCastExpr", "ConstantExpr") and n.get("inner"):
        n = n["inner"][0]
    return n


def callee(n: dict) -> Optional[str]:
    """Name of the function a CallExpr / CXXMemberCallExpr / CXXOperatorCallExpr calls."""
    if n.get("kind") not in ("CallExpr", "CXXMemberCallExpr", "CXXOperatorCallExpr"):
        return None
    inner = n.get("inner") or []
    if not inner:
        return None
    f = strip(inner[0])
    if f.get("kind") == "DeclRefExpr":
        return (f.get("referencedDecl") or {}).get("name")
    if f.get("kind") == "MemberExpr":
        return f.get("name")
    if f.get("kind") in ("UnresolvedLookupExpr", "UnresolvedMemberExpr"):
        return f.get("name") or f.get("member")
    if f.get("kind") == "CXXDependentScopeMemberExpr":
        return f.get("member")
    return None


def call_args(n: dict) -> List[dict]:
    return [strip(x) for x in (n.get("inner") or [])[1:]]


def calls(n: dict, name: Optional[str] = None) -> List[dict]:
    return [c for c in walk(n) if callee(c) is not None and (name is None or callee(c) == name)]


def ref_name(n: dict) -> Optional[str]:
    n = strip(n)
    if n.get("kind") == "DeclRefExpr":
        return (n.get("referencedDecl") or {}).get("name")
    return None


def statements(f: dict) -> List[dict]:
    b = _body(f)
    return list(b.get("inner", [])) if b else []


def line_of(n: dict) -> int:
    for k in ("loc", "range"):
        v = n.get(k) or {}
        if k == "range":
            v = v.get("begin") or {}
        for kk in ("line",):
            if kk in v:
                return v[kk]
        e = v.get("expansionLoc") or v.get("spellingLoc")
        if e and "line" in e:
            return e["line"]
    return 0


def _deep(n):
    if isinstance(n, dict):
        return {k: _deep(v) for k, v in n.items()}
    if isinstance(n, list):
        return [_deep(x) for x in n]
    return n


def inline_helpers(h: "HeaderAST", f: dict, depth: int = 2) -> dict:
    """A copy of function `f` in which every `X = g(a, b)` / `T x = g(a, b)` - g a function defined in the header whose
    body ends in `return <local or expression>` - is replaced by g's statements (parameters replaced by the arguments,
    locals renamed apart) followed by `X = <returned expression>`.  For a function template the dependent type `T`
    written in casts is replaced by the type the call instantiates it with.  Rules written for the straight-line form
    then also decide the form with an extracted helper."""
    skip = {"error", "mexErrMsgTxt", "mexErrMsgIdAndTxt", f.get("name")}
    counter = [0]

    def helper_of(call):
        nm = callee(call)
        if not nm or nm in skip or nm.startswith(("mx", "mex", "std", "operator")):
            return None
        cands = [g for g in h.functions(nm) if _body(g) is not None]
        if len(cands) != 1:
            return None
        g = cands[0]
        st = statements(g)
        if not st or st[-1].get("kind") != "ReturnStmt" or any(x.get("kind") == "ReturnStmt" for s_ in st[:-1] for x in walk(s_)):
            return None
        return g

    def instantiate(g, call):
        counter[0] += 1
        tag = f"__{g.get('name')}_{counter[0]}"
        params = [p for p in g.get("inner", []) if p.get("kind") == "ParmVarDecl"]
        args = list((call.get("inner") or [])[1:])        # unstripped: the conversions applied to an argument stay visible
        if len(params) != len(args):
            return None
        amap = {p.get("name"): a for p, a in zip(params, args)}
        # template parameter T -> instantiated type, read off the callee's function type
        tmap = {}
        fn_ref = strip((call.get("inner") or [{}])[0])
        ftype = ((fn_ref.get("referencedDecl") or {}).get("type") or fn_ref.get("type") or {}).get("qualType", "")
        if "(" in ftype:
            inst = [x.strip() for x in ftype[ftype.index("(") + 1: ftype.rindex(")")].split(",")]
            for p, it in zip(params, inst):
                pt = (p.get("type") or {}).get("qualType", "")
                if pt.isidentifier() and pt != it:
                    tmap[pt] = it
                elif pt != it:
                    # `const T &` against `const unsigned char &`: what is left between the common head and tail
                    a = 0
                    while a < min(len(pt), len(it)) and pt[a] == it[a]:
                        a += 1
                    while a > 0 and (pt[a - 1].isalnum() or pt[a - 1] == "_"):
                        a -= 1
                    b = 0
                    while b < min(len(pt), len(it)) - a and pt[len(pt) - 1 - b] == it[len(it) - 1 - b]:
                        b += 1
                    while b > 0 and (pt[len(pt) - b].isalnum() or pt[len(pt) - b] == "_"):
                        b -= 1
                    mid_p, mid_i = pt[a:len(pt) - b].strip(), it[a:len(it) - b].strip()
                    if mid_p.isidentifier() and mid_i:
                        tmap[mid_p] = mid_i
        locals_ = {v.get("name") for s_ in statements(g) for v in walk(s_) if v.get("kind") == "VarDecl"}

        def rewrite(n):
            if isinstance(n, list):
                return [rewrite(x) for x in n]
            if not isinstance(n, dict):
                return n
            if n.get("kind") == "DeclRefExpr":
                nm = (n.get("referencedDecl") or {}).get("name")
                if nm in amap:
                    return _deep(amap[nm])
                if nm in locals_:
                    m = _deep(n)
                    m["referencedDecl"] = dict(m["referencedDecl"], name=nm + tag)
                    return m
            m = {k: rewrite(v) for k, v in n.items()}
            if m.get("kind") == "VarDecl" and m.get("name") in locals_:
                m["name"] = m["name"] + tag
            if tmap and isinstance(m.get("type"), dict):
                for k in ("qualType", "desugaredQualType"):
                    t = m["type"].get(k)
                    if isinstance(t, str):
                        for a, b in tmap.items():
                            t = " ".join(b if w == a else (b + " *" if w == a + "*" else w) for w in t.replace("*", " *").split())
                        m["type"] = dict(m["type"], **{k: t})
            return m
        body = [rewrite(s_) for s_ in statements(g)]
        ret = body[-1]
        return body[:-1], (ret.get("inner") or [None])[0]

    def expand_block(stmts, d):
        out = []
        for st in stmts:
            st2 = st
            if isinstance(st, dict) and st.get("kind") in ("CompoundStmt",):
                st2 = dict(st, inner=expand_block(st.get("inner", []), d))
                out.append(st2)
                continue
            if isinstance(st, dict) and st.get("kind") == "IfStmt":
                inner = list(st.get("inner", []))
                for k in range(1, len(inner)):
                    if isinstance(inner[k], dict) and inner[k].get("kind") == "CompoundStmt":
                        inner[k] = dict(inner[k], inner=expand_block(inner[k].get("inner", []), d))
                out.append(dict(st, inner=inner))
                continue
            target_call = None
            if isinstance(st, dict) and st.get("kind") == "ReturnStmt" and st.get("inner") and strip(st["inner"][0]).get("kind") == "CallExpr" and d > 0:
                # `return g(a, b);`
                g = helper_of(strip(st["inner"][0]))
                inst = instantiate(g, strip(st["inner"][0])) if g is not None else None
                if inst is not None and inst[1] is not None:
                    out += expand_block(inst[0], d - 1)
                    out.append(dict(st, inner=[inst[1]]))
                    continue
            if isinstance(st, dict) and st.get("kind") == "BinaryOperator" and st.get("opcode") == "=":
                rhs = strip(st["inner"][1])
                if rhs.get("kind") == "CallExpr":
                    target_call = ("assign", rhs)
            elif isinstance(st, dict) and st.get("kind") == "DeclStmt":
                vds = [v for v in st.get("inner", []) if v.get("kind") == "VarDecl"]
                if len(vds) == 1 and vds[0].get("inner") and strip(vds[0]["inner"][-1]).get("kind") == "CallExpr":
                    target_call = ("decl", strip(vds[0]["inner"][-1]))
            g = helper_of(target_call[1]) if target_call and d > 0 else None
            inst = instantiate(g, target_call[1]) if g is not None else None
            if inst is None or inst[1] is None:
                out.append(st)
                continue
            pre, retexpr = inst
            rn = ref_name(retexpr) if isinstance(retexpr, dict) else None
            decl_i = next((k for k, ps in enumerate(pre) if ps.get("kind") == "DeclStmt" and any(
                v.get("kind") == "VarDecl" and v.get("name") == rn and v.get("inner") for v in ps.get("inner", []))), None)
            if target_call[0] == "assign" and rn is not None and decl_i is not None and len(pre[decl_i].get("inner", [])) == 1:
                # the helper returns a local it created: write the caller's target in its place (`input[0] = mxCreate..(..)`)
                lhs = st["inner"][0]
                vd = pre[decl_i]["inner"][0]

                def sub(n):
                    if isinstance(n, list):
                        return [sub(x) for x in n]
                    if not isinstance(n, dict):
                        return n
                    if n.get("kind") == "DeclRefExpr" and (n.get("referencedDecl") or {}).get("name") == rn:
                        return _deep(lhs)
                    return {k: sub(v) for k, v in n.items()}
                pre2 = pre[:decl_i] + [dict(st, inner=[_deep(lhs), vd["inner"][-1]])] + [sub(x) for x in pre[decl_i + 1:]]
                out += expand_block(pre2, d - 1)
                continue
            out += expand_block(pre, d - 1)
            if target_call[0] == "assign":
                out.append(dict(st, inner=[st["inner"][0], retexpr]))
            else:
                vd = dict(vds[0], inner=vds[0]["inner"][:-1] + [retexpr])
                out.append(dict(st, inner=[vd if v is vds[0] else v for v in st["inner"]]))
        return out
    f2 = dict(f)
    new_inner = []
    for c in f.get("inner", []):
        if isinstance(c, dict) and c.get("kind") == "CompoundStmt":
            new_inner.append(dict(c, inner=expand_block(c.get("inner", []), depth)))
        else:
            new_inner.append(c)
    f2["inner"] = new_inner
    return f2
