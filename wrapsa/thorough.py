"""Thorough tier: robustness re-runs (ground rule 3) and the checker self-test (DESIGN section 7).

Scratch copies live under /dev/shm (or $TMPDIR) and are removed by the run that made them.
The self-test never decides the exit status of the property check.
"""
from __future__ import annotations

import ast
import concurrent.futures as cf
import os
import re
import shutil
import tempfile
from typing import Dict, List, Tuple

from .core import AnalysisError, Report, Tree

COPY = ["gtwrap", "scripts", "matlab.h", "templates", "tests/pybind_wrapper.tpl", "cmake"]


def scratch_base() -> str:
    for d in ("/dev/shm", os.environ.get("TMPDIR") or "", "/tmp"):
        if d and os.path.isdir(d) and os.access(d, os.W_OK):
            return d
    return tempfile.gettempdir()


def make_copy(root: str) -> str:
    dst = tempfile.mkdtemp(prefix="wrapsa-", dir=scratch_base())
    for item in COPY:
        src = os.path.join(root, item)
        if os.path.isdir(src):
            shutil.copytree(src, os.path.join(dst, item),
                            ignore=shutil.ignore_patterns("__pycache__", "*.pyc"))
        elif os.path.isfile(src):
            os.makedirs(os.path.dirname(os.path.join(dst, item)), exist_ok=True)
            shutil.copy2(src, os.path.join(dst, item))
    return dst


def py_files(root: str) -> List[str]:
    out = []
    for d in ("gtwrap", "scripts"):
        for dp, dn, fn in os.walk(os.path.join(root, d)):
            for f in fn:
                if f.endswith(".py"):
                    out.append(os.path.join(dp, f))
    return out


def failing_keys(mod, root: str):
    from .main import run_rules
    rep, _ = run_rules(mod, root)
    if rep.errors and not rep.failing():
        raise AnalysisError("; ".join(rep.errors))
    return {o.key() for o in rep.failing()}, len(rep.obs)


# ------------------------------------------------------------------------------------------
def variant_unparse(root: str):
    """Canonical layout, comments dropped."""
    for p in py_files(root):
        with open(p) as f:
            src = f.read()
        with open(p, "w") as f:
            f.write(ast.unparse(ast.parse(src)) + "\n")


def variant_shift(root: str):
    """Every line number changes: a comment block is inserted at the top of each file and after
    every top-level statement."""
    for p in py_files(root):
        with open(p) as f:
            src = f.read()
        tree = ast.parse(src)
        lines = src.split("\n")
        ends = sorted({n.end_lineno for n in tree.body if hasattr(n, "end_lineno")}, reverse=True)
        for e in ends:
            lines.insert(e, "# wrapsa: layout shift\n")
        # keep a leading shebang / docstring intact: the block goes after the first statement only
        with open(p, "w") as f:
            f.write("\n".join(lines))
    h = os.path.join(root, "matlab.h")
    if os.path.exists(h):
        with open(h) as f:
            s = f.read()
        with open(h, "w") as f:
            f.write("// wrapsa: layout shift\n\n" + s)


class _Renamer(ast.NodeTransformer):
    """Alpha-rename lambda parameters and function-local variables (not parameters of defs,
    which may be passed by keyword)."""

    def visit_Lambda(self, node):
        self.generic_visit(node)
        mp = {a.arg: f"{a.arg}_rn" for a in node.args.args}
        for a in node.args.args:
            a.arg = mp[a.arg]
        for n in ast.walk(node.body):
            if isinstance(n, ast.Name) and n.id in mp:
                n.id = mp[n.id]
        return node

    def visit_FunctionDef(self, node):
        self.generic_visit(node)
        params = {a.arg for a in node.args.posonlyargs + node.args.args + node.args.kwonlyargs}
        if node.args.vararg:
            params.add(node.args.vararg.arg)
        if node.args.kwarg:
            params.add(node.args.kwarg.arg)
        stores = set()
        banned = set()
        for n in ast.walk(node):
            if isinstance(n, ast.Name) and isinstance(n.ctx, ast.Store):
                stores.add(n.id)
            elif isinstance(n, (ast.Global, ast.Nonlocal)):
                banned |= set(n.names)
            elif isinstance(n, (ast.FunctionDef, ast.ClassDef)) and n is not node:
                banned.add(n.name)
        # names used inside nested lambdas/defs/comprehension scopes stay consistent because we
        # rename every occurrence in the whole function subtree
        # f-string / format placeholders refer to keyword names, not locals: safe
        targets = {s for s in stores if s not in params and s not in banned and not s.startswith("__")}
        mp = {s: f"{s}_rn" for s in targets}
        for n in ast.walk(node):
            if isinstance(n, ast.Name) and n.id in mp:
                n.id = mp[n.id]
        return node


def variant_alpha(root: str):
    for p in py_files(root):
        with open(p) as f:
            src = f.read()
        tree = _Renamer().visit(ast.parse(src))
        ast.fix_missing_locations(tree)
        with open(p, "w") as f:
            f.write(ast.unparse(tree) + "\n")


VARIANTS = {"unparse-roundtrip": variant_unparse, "line-shift": variant_shift,
            "alpha-rename": variant_alpha}


def robustness(mod, root: str) -> Dict[str, object]:
    base, nobs = failing_keys(mod, root)
    out = {}
    for name, fn in VARIANTS.items():
        d = make_copy(root)
        try:
            fn(d)
            try:
                got, n2 = failing_keys(mod, d)
                out[name] = {"same_findings": got == base, "obligations": n2,
                             "only_in_variant": sorted(map(str, got - base))[:5],
                             "only_in_base": sorted(map(str, base - got))[:5]}
            except AnalysisError as e:
                out[name] = {"same_findings": False, "analysis_error": str(e)[:300]}
        finally:
            shutil.rmtree(d, ignore_errors=True)
    return out


# ------------------------------------------------------------------------------------------
def apply_edit(root: str, rel: str, old: str, new: str, nth=None) -> bool:
    """Replace the only occurrence of `old` (or the nth, 0-based, when given)."""
    p = os.path.join(root, rel)
    if not os.path.exists(p):
        return False
    with open(p) as f:
        s = f.read()
    if nth is None:
        if s.count(old) != 1:
            return False
        s = s.replace(old, new)
    else:
        idx = -1
        for _ in range(nth + 1):
            idx = s.find(old, idx + 1)
            if idx < 0:
                return False
        s = s[:idx] + new + s[idx + len(old):]
    with open(p, "w") as f:
        f.write(s)
    return True


def _run_mutant(args) -> Tuple[str, str, str]:
    modname, root, mut, base = args
    import importlib
    mod = importlib.import_module(modname)
    d = make_copy(root)
    try:
        ok = True
        for ed in mut["edits"]:
            ok = ok and apply_edit(d, *ed)
        if mut.get("patch"):
            import subprocess
            r = subprocess.run(["patch", "-p1", "-s", "--no-backup-if-mismatch", "-i", mut["patch"]], cwd=d, capture_output=True, text=True)
            ok = ok and r.returncode == 0
        if not ok:
            return mut["id"], "skipped", "edit does not apply to the current tree"
        if True:
            for ed in mut["edits"]:
                rel = ed[0]
                if rel.endswith(".py"):
                    try:
                        with open(os.path.join(d, rel)) as f:
                            ast.parse(f.read())
                    except SyntaxError as e:
                        return mut["id"], "skipped", f"variant does not parse: {e}"
        try:
            got, _ = failing_keys(mod, d)
        except AnalysisError as e:
            if mut["kind"] == "break" and mut.get("accept_analysis_error"):
                return mut["id"], "caught", f"ANALYSIS-ERROR (accepted): {str(e)[:120]}"
            return mut["id"], "error", f"ANALYSIS-ERROR: {str(e)[:200]}"
        new_keys = got - set(map(tuple, base))
        if mut["kind"] == "break":
            hit = [k for k in new_keys if not mut.get("rules") or k[0] in mut["rules"]]
            if hit:
                return mut["id"], "caught", f"{hit[0][0]} {hit[0][1]}"[:200]
            return mut["id"], "MISSED", f"new findings: {sorted(new_keys)[:3]}"
        else:
            if new_keys:
                return mut["id"], "FALSE-ALARM", f"{sorted(new_keys)[:3]}"
            return mut["id"], "silent", ""
    finally:
        shutil.rmtree(d, ignore_errors=True)


def selftest(mod, root: str) -> Dict[str, object]:
    from . import mutants
    table = list(mutants.TABLE.get(mod.ID, []))
    # behaviour-preserving refactorings written independently (benign/<area>-<n>/patch.diff): every check must stay silent
    here = os.path.dirname(os.path.dirname(os.path.abspath(__file__)))
    import glob
    for pd in sorted(glob.glob(os.path.join(here, "benign", "*", "patch.diff"))):
        table.append({"id": "refactoring:" + os.path.basename(os.path.dirname(pd)), "kind": "benign", "rules": set(), "edits": [], "patch": pd})
    if not table:
        return {"mutants": 0}
    base, _ = failing_keys(mod, root)
    jobs = [(mod.__name__, root, m, sorted(base)) for m in table]
    res = []
    workers = min(16, max(1, len(jobs)))
    with cf.ProcessPoolExecutor(max_workers=workers) as ex:
        for r in ex.map(_run_mutant, jobs):
            res.append(r)
    summary = {"mutants": len(res),
               "caught": sum(1 for r in res if r[1] == "caught"),
               "missed": [r[0] for r in res if r[1] == "MISSED"],
               "benign_silent": sum(1 for r in res if r[1] == "silent"),
               "false_alarms": [r[0] for r in res if r[1] == "FALSE-ALARM"],
               "skipped": [r[0] for r in res if r[1] == "skipped"],
               "errors": [f"{r[0]}: {r[2]}" for r in res if r[1] == "error"],
               "details": [{"id": r[0], "result": r[1], "note": r[2]} for r in res]}
    return summary


def run(mod, root: str, rep: Report) -> Dict[str, object]:
    rb = robustness(mod, root)
    st = selftest(mod, root)
    for name, r in rb.items():
        print(f"robustness {name}: {'same findings' if r.get('same_findings') else 'DIFFERENT: ' + str(r)}")
    if st.get("mutants"):
        print(f"self-test: {st['caught']} breaking edits caught, {len(st['missed'])} missed "
              f"{st['missed']}, {st['benign_silent']} benign edits silent, "
              f"{len(st['false_alarms'])} false alarms {st['false_alarms']}, "
              f"{len(st['skipped'])} skipped {st['skipped']}, {len(st['errors'])} errors {st['errors'][:3]}")
    return {"robustness_reruns": rb, "self_test": st}
